#!/usr/bin/env python3
"""Regenerates MANIFEST.json from the table below (single source of truth for the registered checks)."""
import json
import os

VERIF = os.path.dirname(os.path.dirname(os.path.abspath(__file__)))

CHECKS = {
    "C06": dict(
        category="exploration", design_ref="3/C06",
        technique="Hypothesis round trip encoder->segmenter->decoder on the real Server.write_response/Client.parse_response; exhaustive enumeration of Code.matches",
        text="Generated reply sequences (all codes, 1-6 lines, plain/list framing, 3 encodings, generated segmentations) are encoded by the real server code and decoded by the real client code and compared line by line; a reply with a foreign continuation code must raise StatusCodeError and leave the stream in sync; Code.matches is compared with the digit-wise specification on every (code, mask) pair (exhaustive); Server.parse_command round trip. Exploration is the right level: the domain is unbounded text, the oracle (round trip) is exact.",
        note="Assumes lines without CR/LF compared modulo trailing whitespace; encodings utf-8/latin-1/cp1251. Trusted: asyncio.StreamReader. Mutants caught: encoder dropping a body line, decoder comparing only the first digit of continuation codes, matches() looking at the first digit only."),
    "C12": dict(
        category="fault_enumeration", design_ref="3/C12",
        technique="enumeration of cut positions (peer vanishes / write-then-FIN / Server.close() at every network delivery event of every corpus script, iteration-indexed alignment sweeps) on a simulated network, plus Hypothesis-sampled schedule tapes; oracle = resource ledger",
        text="Unmodified aioftp server on simnet (virtual-time asyncio loop + in-memory TCP model). For every script of the corpus and every delivery event k the session is cut (peer closes all sockets; peer writes then FINs; Server.close()), under 4 network modes; 14x14 iteration-indexed sweeps align session end with a data connect and with the passive listener start-up; Hypothesis samples tapes, backend delays, backends, neighbour sessions and port pools. After each cut the ledger must be empty one virtual second later (server-side sockets, passive listeners, backend handles, connection table, tasks, port pool) and Server.close() must complete leaving nothing.",
        note="Trusted base: simnet (calibrated: the repo test-suite passes on it with the same single baseline failure), CPython BaseEventLoop scheduling. Exhaustive only relative to the corpus scripts and the 4 fixed network modes. Found and fixed 3 defects (KNOWN_FINDINGS)."),
}

NOT_YET = {}

def main():
    props = [json.loads(l) for l in open(os.path.join(VERIF, "properties.jsonl"))]
    checks = []
    na = []
    for p in props:
        pid = p["id"]
        c = CHECKS.get(pid)
        if c is None:
            na.append(dict(property_id=pid, reason=NOT_YET.get(pid, "check not built yet (work in progress); the technique applies, see DESIGN.md section 3")))
            continue
        checks.append(dict(
            property_id=pid,
            quick_cmd=f"./run_check.py {pid} --tier quick",
            thorough_cmd=f"./run_check.py {pid} --tier thorough",
            evidence_file=f"/verif/evidence/{pid}.json",
            replay_cmd_template=f"./run_check.py {pid} --replay {{path}}",
            engine="simnet+hypothesis" if c.get("sim", True) else "hypothesis",
            level_claimed=dict(category=c["category"], text=c["text"], design_ref=c["design_ref"]),
            level_note=c["note"],
            technique=c["technique"],
        ))
    m = dict(
        version=1,
        setup_cmd="/venv/bin/python -c 'import hypothesis' 2>/dev/null || /venv/bin/pip install -q --no-index --find-links /opt/veriftools/wheels hypothesis",
        hooks=dict(guard="AIOFTP_VERIF", enable="no source hooks exist: checks import aioftp from /repo/src as it is (AIOFTP_VERIF=1 is exported by run_check.py but nothing in the repository reads it)",
                   baseline_off_cmd="cd /repo && /venv/bin/python -m pytest -ra -q -p no:cacheprovider --timeout=900 --continue-on-collection-errors",
                   source_commits=[], add_only=True),
        engines=[
            dict(name="simnet", path="vlib/simnet.py", serves_properties=[c for c in CHECKS], kind_free_text="virtual-time asyncio event loop + in-memory TCP model on which the unmodified aioftp client/server run; schedule tapes, gates, fault injection, resource ledger"),
            dict(name="runner", path="vlib/runner.py", serves_properties=[c for c in CHECKS], kind_free_text="16-process sharding, Hypothesis driver with collect-then-continue rounds, signature classification against KNOWN_FINDINGS, replay + evidence files"),
        ],
        checks=checks,
        not_applicable=na,
        notes="Every check: ./run_check.py <ID> [--tier quick|thorough] [--replay file]; VERIF_SEED / VERIF_TIER honoured. Exit 0 held, 1 VIOLATION, 2 harness error (inconclusive). Known findings: KNOWN_FINDINGS.",
    )
    with open(os.path.join(VERIF, "MANIFEST.json"), "w") as fh:
        json.dump(m, fh, indent=1)
    print("checks:", [c["property_id"] for c in checks], "not_applicable:", len(na))

main()

#!/usr/bin/env python3
"""Regenerates MANIFEST.json from the table below (single source of truth for the registered checks)."""
import json
import os

VERIF = os.path.dirname(os.path.dirname(os.path.abspath(__file__)))

CHECKS = {
    "C06": dict(
        category="exploration", design_ref="3/C06",
        technique="Hypothesis round trip encoder->segmenter->decoder on the real Server.write_response/Client.parse_response; exhaustive enumeration of Code.matches",
        text="Generated reply sequences (all codes, 1-6 lines, plain/list framing, 3 encodings, generated segmentations) are encoded by the real server code and decoded by the real client code and compared line by line; a reply with a foreign continuation code must raise StatusCodeError and leave the stream in sync; Code.matches is compared with the digit-wise specification on every (code, mask) pair (exhaustive); Server.parse_command round trip. Exploration is the right level: the domain is unbounded text, the oracle (round trip) is exact.",
        note="Assumes lines without CR/LF compared modulo trailing whitespace; encodings utf-8/latin-1/cp1251. Trusted: asyncio.StreamReader. Mutants caught: encoder dropping a body line, decoder comparing only the first digit of continuation codes, matches() looking at the first digit only."),
    "C01": dict(
        category="exploration", design_ref="3/C01",
        technique="Hypothesis: payload x offset x chunking x block size x backend x throttle x network tape, real aioftp.Client against the real server on a simulated network; oracle = byte model",
        text="Generated operation lists (STOR/APPE/RETR whole and at restart offsets inside, at and beyond the end) with block-boundary sizes and adversarial byte patterns are driven through the real client; after every completion reply the backend bytes (read directly), stat and MLSD sizes and a whole download seen by a second session must equal a dict-of-bytes model; downloads are compared byte for byte.",
        note="Trusted: simnet; byte model (20 lines). Mutants caught: missing seek in retr_worker, 'wb' with a restart offset, dropping the last byte of full blocks, iterator stopping on a CR/LF block."),
    "C07": dict(
        category="exploration", design_ref="3/C07",
        technique="Hypothesis on format-then-parse of ls dates over the (mtime, now, time zone) plane; generated directories listed end to end through the real client on simnet; oracle = backend truth + precision rule",
        text="Plane: real Server.build_list_mtime -> real Client.parse_ls_date for generated (now, mtime, lag) in 4 process time zones, expected localtime(mtime) to the minute inside the last half year and to the day otherwise (the one-day window at the boundary is excluded, as the property says). End to end: generated directories (names with metacharacters, sizes to 2^40, controlled mtimes via a virtual wall clock injected into server, backend and client) listed with MLSD, LIST, MLST-stat and against a LIST-only server; names as multiset, type, size, MLSx modify in UTC seconds, LIST time per the precision rule.",
        note="Virtual wall clock: module attribute shims (aioftp.server.time, aioftp.pathio.time, aioftp.client.datetime) in the harness, no repository change. Known finding F12 (leading-whitespace names through LIST) is recorded in KNOWN_FINDINGS and its class is suppressed by signature. Mutants caught: half-year test shifted by 5 days, client year inference shifted, MLSx time via localtime, size modulo 2^32."),
    "C13": dict(
        category="fault_enumeration", design_ref="3/C13",
        technique="enumeration of the k-th backend call failing (k = 1..n, pairs in thorough) x script corpus x backend on a simulated network with an instrumented backend, plus Hypothesis-sampled fault sets / exception types / tapes; oracle = 451 + ledger + probe + neighbour differential",
        text="An instrumented subclass of each shipped backend counts the calls made for the victim session and raises inside the k-th one (under universal_exception, including inside the lister's __anext__). For every script and every k: the faulted command must end with exactly one 451 (after the 150 if a transfer had started), the server must close the data connection and a downloading peer must see EOF, no backend handle may stay open, later commands must be answered, a PWD + upload + download probe must succeed on the same session and a concurrently running neighbour session must produce its solo transcript.",
        note="Exhaustive relative to the scripts only. Faults are injected at the backend API boundary. The defect this check finds on the original tree (open() failing in stor/retr workers leaks the data connection) is fixed in f23a3f1. Mutants caught: 226 queued before the file context exits; universal_exception letting an exception type through; listing worker not closing its stream."),
    "C14": dict(
        category="fault_enumeration", design_ref="3/C14",
        technique="enumeration of ABOR positions (virtual-time grid over every block of every transfer kind, iteration-indexed sweep of the ABOR arrival, no-transfer case) x data-connection timing x follow-up, plus Hypothesis-sampled times/tapes, on a simulated network; oracle = allowed reply sequences + prefix + follow-up",
        text="For RETR/STOR/APPE/LIST/MLSD, sizes around block multiples and data connection made before / late / never, the ABOR is sent 0.5 s before the command, pipelined in the same segment, 0.5 ms after it and then every 0.5 virtual seconds until after the completion reply (the backend awaits 1 s per block, so every block boundary is hit), and at every loop iteration 0..N after the command on a zero-delay backend. The control channel must then carry exactly one of the allowed reply sequences, the session must stay open, the server must close the transfer's data connection, received/stored bytes must be a prefix, and each of five follow-ups must behave normally.",
        note="Exhaustive relative to the grid only. A data connection the client opens after sending ABOR is a new unused connection and is not judged. Found and fixed two defects (F1, F13). Mutants caught: worker not sending 426; abor() cancelling and answering 226 itself."),
    "C08": dict(
        category="exploration", design_ref="3/C08",
        technique="Hypothesis names biased to protocol metacharacters through every path-taking client method on a simulated network; oracle = backend tree identity",
        text="For generated names (quotes, space runs, ';', '=', ' -> ', 3-digit prefixes, backslash, '%', combining/astral/control characters) a directory and a file of that name are created, entered, reported by PWD, listed, stat'ed, uploaded to, downloaded, renamed away and back, listed recursively and removed through the real client against the real server (memory and PathIO, MLSD and LIST-only); after each step the backend tree read directly must contain exactly that name.",
        note="Leading-whitespace names against LIST-only servers are excluded and counted (inherent to the ls column format, see DESIGN F12). Found and fixed the PWD quoting defect."),
    "C09": dict(
        category="exploration", design_ref="3/C09",
        technique="Hypothesis trees x destination x write_into x cwd x MLSD/LIST server through the real client on a simulated network; oracle = placement specification + multiset equality",
        text="Generated trees are uploaded/downloaded/listed recursively/removed through the real client; the resulting tree must equal initial + ancestors(root) + copy(source -> root) with root computed from the documented placement rule, listings must contain every entry exactly once with the right path and type, remove must delete the subtree and nothing else. Any exception from a valid operation is a violation.",
        note="Server on MemoryPathIO, client on MemoryPathIO. Found and fixed the directory upload placement defect."),
    "C20": dict(
        category="exploration", design_ref="3/C20",
        technique="Hypothesis login sessions run three times with equal-length passwords differing in every position: non-interference of the fully formatted log streams, plus substring search",
        text="Each generated scenario (Client.login / Client.context / raw USER+PASS in 6 orders, 3 verb spellings, accepted or rejected) is run on simnet with three passwords of equal length (two over disjoint alphabets with the same special items, one with the special items replaced by plain characters); all log records (root, aioftp.*, asyncio; message, args, exception text) must be identical across the runs, which is exactly 'at most the length is revealed'; distinctive 4-character windows of the password must not occur in any record.",
        note="Deterministic logs are a by-product of simnet (virtual clock, fixed ports). Mutants caught: case-sensitive censoring, client censoring only short commands, 530 reply echoing the argument, star count depending on the content."),
    "C02": dict(
        category="exploration", design_ref="3/C02",
        technique="Hypothesis on Server.get_paths (posix and windows pure-path flavours) vs an independent string resolver; generated CWD/CDUP histories; wire sessions on simnet with a recording backend jailed inside a larger tree with canaries",
        text="Function level: generated (flavour, base_path, cwd, path string over an alphabet with '..', '.', empty, leading '//', backslash / drive / UNC / dot-prefixed segments); the real path must stay lexically inside the base with no '..' after the base prefix, and the reported virtual path must be the normalised absolute form of the location addressed. History level: cwd stays absolute/normalised under any CWD/CDUP sequence and '.' is the identity. Wire level: all 13 path-taking commands with such arguments against a server whose recording backend is rooted at /jail/u1 inside a tree with canary siblings (memory and a real temp directory); every path the backend is asked about must be inside the base, canaries unchanged, PWD equal to the resolver.",
        note="Windows flavour is lexical only (PureWindowsPath), like the repository's own test. Found and fixed the '..\\..\\x' escape and the base_path.parent probe; the remaining windows-flavour alias (backslash / drive segments re-parsed) is a recorded known finding whose signature is suppressed. Mutants caught: '..' not folded for relative input, guard removed, relative paths joined by name only, '..' allowed above depth 1."),
    "C03": dict(
        category="exploration", design_ref="3/C03",
        technique="Hypothesis-generated state-aware command histories (auth-heavy) on a simulated network vs an auth automaton + instrumented backend + network ledger",
        text="Generated user tables and command histories (USER/PASS in every order interleaved with all verbs) run against the real server; every reply must equal the auth automaton's (gated verbs refused until a known user supplied the right password after its last USER; PWD reveals whose home the session is in), and while the automaton is not logged the instrumented backend's call counter must not move and no listener/data connection may appear in the simulated network's ledger.",
        note="Trusted: reference model vlib/ftpmodel.py, simnet. Mutants caught: USER not dropping 'logged'; login_required removed from MLST; substring password comparison."),
    "C04": dict(
        category="exploration", design_ref="3/C04",
        technique="Hypothesis: permission tables x request paths vs longest-prefix oracle (function level); generated tables + alias-heavy command histories on simnet vs reference model (wire level)",
        text="Function level: real User.get_permissions against an independent longest-prefix oracle over generated tables (nested, overlapping, duplicated, unordered, redundant-slash spellings). Wire level: generated table + command history whose arguments are aliases ('..' detours, relative forms from generated cwds, doubled slashes); the model applies the table to the resolved path, so a missing check, a spurious denial, a wrong permission class, or a lookup on the unresolved path all show as a reply mismatch; tree compared after every command and PWD after every CWD/CDUP.",
        note="Trusted: reference model, simnet. Disagreeing duplicate entries are not judged. Mutants caught: min->max in get_permissions; lookup on the unresolved path; readable checked where writable is meant (DELE)."),
    "C05": dict(
        category="exploration", design_ref="3/C05",
        technique="Hypothesis-generated state-aware command histories on a simulated network, compared step by step with a sequential reference model (model-based testing)",
        text="Abstract programs are concretised against the model state (so that deep states are reached: logins, listeners, existing files, REST->transfer, RNFR->RNTO) and executed one command at a time against the real server on memory/PathIO/AsyncPathIO backends, IPv4/IPv6, 3 block sizes, generated network tapes; reply count/order/codes, 257 text, data bytes, listing names, session liveness and the whole backend tree are compared with the model after every command; four probes at the end reveal hidden state (restart offset, pending rename, cwd).",
        note="Trusted: reference model vlib/ftpmodel.py (written from the RFCs and the property texts; points the texts leave open are not judged and are counted), simnet. Found and fixed 5 defects (KNOWN_FINDINGS)."),
    "C15": dict(
        category="exploration", design_ref="3/C15",
        technique="Hypothesis traces of (chunk size, I/O duration, idle gap) through the real ThrottleStreamIO under a virtual clock vs an exact-rational token model; end-to-end transfers on a simulated zero-latency network with every write time-stamped",
        text="API level: the real Throttle/StreamThrottle/ThrottleStreamIO run on in-memory streams whose operations take generated virtual durations, in topologies single / shared / cloned / opposite-direction only / unlimited / limit 0 / two limits / limit changed through the setter; with Fraction arithmetic the check asserts at every I/O start that completed bytes <= L*(t - t0) + 1/2 byte per accounting step (+ one block per other stream sharing the throttle), that a single stream starts exactly at max(ready, t0 + bytes/L) (no extra delay), and that no virtual time passes when no limit applies. End to end: five limit levels x direction x 1-4 connections x 1-2 users x sizes through the real client and server; the simulated network time-stamps every write of the limited side; per scope the cumulative bytes must stay under L*(t - t0) + one block per stream and the duration under bytes/L + the same slack; reader-side limits are checked through completion times.",
        note="Trusted: simnet clock; rounding tolerance as stated. Mutants caught: reset fold with the wrong sign, half the wait, clone() returning self, read waiting on the write throttle."),
    "C16": dict(
        category="fault_enumeration", design_ref="3/C16",
        technique="enumeration of stall position x all 8 None/value combinations of the three timeouts in exact virtual time on a simulated network (plus Hypothesis-drawn values); oracle = equality with the earliest applicable bound + resource ledger",
        text="The peer goes silent after its j-th command (every j of several scripted sessions, incl. before login), never makes the data connection of a RETR/STOR/APPE/LIST/MLSD, stops reading a 300 KB download after i bytes (TCP back pressure modelled by simnet: the server's write buffer fills and drain() blocks), stops sending an upload after i bytes, or sends a command every idle_timeout - epsilon. Because the harness owns the clock the bounds are checked as equalities (20 ms tolerance): release exactly at last command + idle_timeout or blocked I/O start + socket_timeout, 425 exactly at 150 + wait_future_timeout and PWD works afterwards, nothing at all released within 1000 s when the relevant timeouts are None, never dropped while commands keep arriving; after each release the C12 ledger must be empty.",
        note="Trusted: simnet flow control model (high/low water marks, pause_reading). Ties between two timers are not judged. Mutants caught: read/write timeouts swapped in StreamIO, idle timeout applied to the data stream, wait_future_timeout doubled."),
    "C17": dict(
        category="exploration", design_ref="3/C17",
        technique="differential testing on a simulated network: Hypothesis pairs/triples of scripted sessions x interleaving tapes x backend delays x optional cut of one session; oracle = each session's transcript and subtree equal its solo run",
        text="2-3 scripted sessions (12 scripts covering all verbs, restarts, renames, relative paths after CWD, TYPE, re-login, ABOR, error replies) re-rooted to disjoint subtrees, as the same or as different users, are interleaved by generated per-segment latencies/segmentations and backend delays; optionally one of them is cut (peer vanishes) at a generated network event. Every surviving session's normalised transcript (codes, reply texts, transferred bytes, listings) and final subtree must equal those of the same script run alone.",
        note="Normalisation masks port numbers and timestamps only. Mutants caught: restart offset, working directory shared between connections; one session's TYPE closing another's data connection."),
    "C19": dict(
        category="exploration", design_ref="3/C19",
        technique="grammar-aware mutational fuzzing: Hypothesis mutations of valid listing lines / passive replies / raw bytes against the parser contracts, atheris (libFuzzer, coverage-guided) on the same oracles, a generated hostile fake server against the real client and generated hostile control input against the real server on a simulated network",
        text="Parsers: contract checks (listing-line entry points return (PurePosixPath, dict) or raise ValueError; others return well-typed values or raise Exception; every call returns - SIGALRM/libFuzzer timeouts catch unbounded loops). Hostile server: generated reply behaviours (wrong code, mismatched continuation, garbage, empty line, early close, malformed 227/229/257, mutated listing payloads with dot entries) against 7 client calls; because the fake server always hangs up in the end, a client call that neither returns nor raises within 10^6 virtual seconds is a hang; LIST listings must report every non-dot line or raise; recursive listing over generated trees with '.'/'..' in every directory must issue exactly one listing per directory. Hostile client: generated control input (mutated arguments, undecodable bytes, >64 KiB lines, bare CR/LF, NUL, premature EOF) while a neighbour session runs; fresh sessions must still be served, the neighbour must see its solo transcript, the hostile session's resources must be released.",
        note="Observation (not a violation): parse_pasv_response's regex is quadratic in the length of a '('-free line (64 KiB reply ~ 2.4 s). Mutants caught: IndexError not funnelled into ValueError; '.' entries not skipped (endless recursion)."),
    "C18": dict(
        category="exploration", design_ref="3/C18",
        technique="differential testing: Hypothesis command histories replayed on the three backends (reply class, bytes, tree after every command); generated backend-API op sequences on PathIO vs AsyncPathIO",
        text="The same generated concrete history is replayed on MemoryPathIO, PathIO and AsyncPathIO servers on simnet and compared pairwise after every command; a failing command must leave the tree unchanged. API level: generated operation sequences (all open modes, seek whence, renames onto/into/through) on PathIO vs AsyncPathIO must give the same result-or-failure and tree; thorough also with real executor threads.",
        note="Differential oracle: no model needed. MemoryPathIO API differences not reachable through the server's command set are outside the property. Found and fixed 4 MemoryPathIO defects (KNOWN_FINDINGS)."),
    "C10": dict(
        category="exploration", design_ref="3/C10",
        technique="Hypothesis-generated multi-session event histories (stateful, model-based) on a simulated network; oracle = slot-conservation model checked at quiescence after every event",
        text="Up to 6 concurrent raw sessions perform generated events (connect, USER same/other/unknown/over-limit, PASS, QUIT, abrupt disconnect, partial command + FIN, undecodable line, idle-timeout expiry in virtual time, internal error via a backend raising a non-PathIOError, Server.close()) against servers with generated server-wide and per-user limits; after every event the server's and every user's counters must equal the model's (max - live admitted / attached), over-limit connects get 421 and over-limit USERs 530 without being counted, no accounting error is logged, and all counters return to their maximum.",
        note="Trusted: simnet, the slot model (40 lines). Mutants caught: no notify_logout on re-USER; server slot released unconditionally; locked() off by one; user counter corrupted on refused USER."),
    "C11": dict(
        category="fault_enumeration", design_ref="3/C11",
        technique="enumeration of bind-fault patterns (3^6 assignments of {ok, EADDRINUSE, EACCES} to port x attempt) and of session-end positions inside the passive listener start-up (iteration-indexed), plus Hypothesis histories; oracle = port multiset invariant + listener table",
        text="simnet injects bind failures per (port, attempt) and ends sessions (peer disconnect or Server.close()) n loop iterations after PASV/EPSV was sent, for n = 0..15, 1-3 sessions at once on 1-3 port pools; Hypothesis adds generated multi-session histories with random fault patterns and network tapes. At quiescence after every event: multiset(pool) + ports bound by live sessions = configured set, the network's listener table holds exactly the bound ports, announced ports are configured and unshared, 421 only when no free port was bindable, and finally the pool is complete, no listener is left and a fresh session can still get a port.",
        note="Trusted: simnet's create_server mirrors CPython 3.12's suspension points. Defects found here: F2 (session end during start-up loses the port / leaks the listener, fixed 98b46c7), F15 (pipelined passive commands, fixed 1e067c2), F16 (421 while an untried port was free, fixed 7cc164d). Mutants caught: port returned only on EADDRINUSE; NoAvailablePort not an OSError; give-back dropped from the dispatcher's finally; cancel path not returning the port."),
    "C12": dict(
        category="fault_enumeration", design_ref="3/C12",
        technique="enumeration of cut positions (peer vanishes / write-then-FIN / Server.close() at every network delivery event of every corpus script, iteration-indexed alignment sweeps) on a simulated network, plus Hypothesis-sampled schedule tapes; oracle = resource ledger",
        text="Unmodified aioftp server on simnet (virtual-time asyncio loop + in-memory TCP model). For every script of the corpus and every delivery event k the session is cut (peer closes all sockets; peer writes then FINs; Server.close()), under 4 network modes; 14x14 iteration-indexed sweeps align session end with a data connect and with the passive listener start-up; Hypothesis samples tapes, backend delays, backends, neighbour sessions and port pools. After each cut the ledger must be empty one virtual second later (server-side sockets, passive listeners, backend handles, connection table, tasks, port pool) and Server.close() must complete leaving nothing.",
        note="Trusted base: simnet (calibrated: the repo test-suite passes on it with the same single baseline failure), CPython BaseEventLoop scheduling. Exhaustive only relative to the corpus scripts and the 4 fixed network modes. Found and fixed 3 defects (KNOWN_FINDINGS)."),
}

# parts added after the first version of each check (appended to the level text)
ADDED = {
    "C01": " Also through Client.upload/download of whole files, and with server options that must not matter (block size, timeouts, non-binding limits) drawn per case. Throttle configurations include a limit of exactly 0 and the per-user levels; an exception from a valid transfer is a violation.",
    "C02": " The wire part runs two users with different bases on one server and re-logs-in on the same connection (each access must be inside the base of the user logged in when the command was sent). Part 'window': commands (CWD, CDUP, USER, MKD) sent between a transfer's 150 and its data connection must not change the location served or stored (metamorphic against the run without them). Second wire oracle: every backend access of a command concerns the location the command addresses (resolved when it arrives) or an ancestor / descendant of it - for RNTO also the location addressed by the pending RNFR; RNFR/CWD/RNTO and RNFR/RELOGIN/RNTO blocks are generated.",
    "C04": " Part 'window': the C02 window relation with permission-restricted locations - the location whose permission was checked is the one the worker uses. Part 'updown': directed histories (home below a generated table, then CDUP / 'CWD ..' / sideways CWD, PWD after each): every move is authorised by the entry governing its destination.",
    "C05": " Part 'real' runs the same walks over real loopback sockets on the stock asyncio loop, so simnet traces are validated against the implementation on a real network stack.",
    "C06": " Foreign codes are also placed on interior continuation lines (rejection demanded); part 'cmdloop' drives Client.command with generated expected/wait codes against generated reply sequences.",
    "C08": " Glob-flavoured names ('report[1]', 'st*r', 'wha?', '[!x]') get decoy siblings that a pattern reading would match; listings must contain exactly the named entry and the decoys.",
    "C10": " Session ends also by QUIT + RST and command + RST (transport.abort()), so the release path behind a failing reply write is covered. Events also put a session through a transfer state (425 for lack of a data connection, completed, aborted, cut while the worker waits) before it ends.",
    "C11": " Histories include re-USER on a session that holds a listener, two passive commands pipelined in one segment (one listener, one port, two answers) and a four-session history in which pool priorities diverge. One history runs on an IPv6 listener, where PASV is refused with 503 while the session may keep the listener it opened.",
    "C12": " Cut family 'write_then_rst' resets the connection right after a command (the reply write fails); a slow-I/O backend mode makes open()/read()/write() suspend; the thorough tier re-runs the simnet calibration (repository suite on simnet). Corpus script 'unused_data_relogin': an accepted but unused data connection meets a re-USER. Part 'accept': Server.close() n loop iterations after a client begins to connect (the client never leaves). Network mode 'throttled': speed limits low enough that transfers spend their time in throttle waits. Script 'restart' also aims restart uploads at files that do not exist.",
    "C13": " The exception type rotates over 15 types (OSError subclasses, TimeoutError, KeyError, asyncio.TimeoutError, ...); AsyncPathIO path_timeout overruns are injected; part 'pipelined' sends command batches while a fault is pending (every command still gets exactly one completion reply).",
    "C14": " Backend delays include open()/close(); part 'backpressure' sends ABOR while the server's data writes are blocked by a client that does not read. Follow-up transfers are also run on the listener the session already has (no new EPSV) once the server has closed the aborted transfer's data connection. Part 'double': a second ABOR 0 / 0.5 ms / 0.3 s / 0.7 s after the first, with and without a slow backend close(): both are answered, the clean-up is not cut short. Backend delays also cover the checks made before the 150; an ABOR answered before the 150 is accepted only if it was sent before the command.",
    "C15": " Login choreographies (pending USER while another session of the user leaves, re-USER, early bird, wrong password first) and part 'relogin' (data connection opened as user A, re-login as user B, transfer on the existing connection: B's limit applies, A's never delays it). Part 'setter': a per-connection or server-wide limit switched on through the setter while sessions exist.",
    "C07": " Entries carry generated permission bits (set-uid / set-gid / sticky with and without execute); part 'modes' is exhaustive over the 7 x 4096 (file type, permission) pairs: the mode string the server prints must be accepted by the client's parser; the listed directory itself is stat'ed and may contain an entry of its own name.",
    "C09": " Operations 'download_here' (source '' / '.' / '/': download the working directory or the root) and 'upload_twice' (same relative destination from two working directories on one connection).",
    "C16": " Family 'tail': the receiver never reads a file smaller than the transport's write buffer - no write ever blocks, yet after socket_timeout the worker must be finished and the data socket closed.",
    "C17": " Payload sizes are session-specific and 14 backend operations can be delayed, so facts or offsets leaking between sessions show in the bytes.",
    "C19": " The hostile-client part also counts server-wide and per-user connection slots as session resources. The 'line not dropped' rule is decided constructively: generated bytes are also decoded into a well-formed unix/windows/MLSx line whose name is known by construction; it must never be parsed as '.'/'..' unless the name lexically is one. After hostile input a fresh session lists '/' and every directory left behind, with MLSD and LIST.",
    "C03": " Part 'pipelined': three users with disjoint bases, a backend that really suspends, 2-5 lines sent in one segment (path commands, USER, PASS): the backend is never asked about a path inside the base of a user the session did not supply credentials for, none of that user's content is served, that user's subtree is unchanged.",
    "C20": " Scenarios also: over-limit user / server (530/421 replies), error paths, clients with latin-1 / ASCII encoding and passwords they cannot encode (the third twin is skipped there, counted). Mode 'work': a logged-in password user reaches every remaining server log site (listing with a vanished entry, transfers, 425, ABOR, QUIT). Mode 'overlong': a 70 000-character password sent in two pieces.",
}

NOT_YET = {}

def main():
    props = [json.loads(l) for l in open(os.path.join(VERIF, "properties.jsonl"))]
    checks = []
    na = []
    for p in props:
        pid = p["id"]
        c = CHECKS.get(pid)
        if c is None:
            na.append(dict(property_id=pid, reason=NOT_YET.get(pid, "check not built yet (work in progress); the technique applies, see DESIGN.md section 3")))
            continue
        checks.append(dict(
            property_id=pid,
            quick_cmd=f"./run_check.py {pid} --tier quick",
            thorough_cmd=f"./run_check.py {pid} --tier thorough",
            evidence_file=f"/verif/evidence/{pid}.json",
            replay_cmd_template=f"./run_check.py {pid} --replay {{path}}",
            engine="simnet+hypothesis" if c.get("sim", True) else "hypothesis",
            level_claimed=dict(category=c["category"], text=c["text"] + ADDED.get(pid, ""), design_ref=c["design_ref"]),
            level_note=c["note"],
            technique=c["technique"],
        ))
    m = dict(
        version=1,
        setup_cmd="(/venv/bin/python -c 'import hypothesis' 2>/dev/null || /venv/bin/pip install -q --no-index --find-links /opt/veriftools/wheels hypothesis) && (test -d /verif/.deps/atheris || /venv/bin/pip install -q --no-index --find-links /opt/veriftools/wheels --target /verif/.deps atheris)",
        hooks=dict(guard="AIOFTP_VERIF", enable="no source hooks exist: checks import aioftp from /repo/src as it is (AIOFTP_VERIF=1 is exported by run_check.py but nothing in the repository reads it)",
                   baseline_off_cmd="cd /repo && /venv/bin/python -m pytest -ra -q -p no:cacheprovider --timeout=900 --continue-on-collection-errors",
                   source_commits=[], add_only=True),
        engines=[
            dict(name="simnet", path="vlib/simnet.py", serves_properties=[c for c in CHECKS], kind_free_text="virtual-time asyncio event loop + in-memory TCP model on which the unmodified aioftp client/server run; schedule tapes, gates, fault injection, resource ledger"),
            dict(name="runner", path="vlib/runner.py", serves_properties=[c for c in CHECKS], kind_free_text="16-process sharding, Hypothesis driver with collect-then-continue rounds, signature classification against KNOWN_FINDINGS, replay + evidence files"),
        ],
        checks=checks,
        not_applicable=na,
        notes="Every check: ./run_check.py <ID> [--tier quick|thorough] [--replay file]; VERIF_SEED / VERIF_TIER honoured. Exit 0 held, 1 VIOLATION, 2 harness error (inconclusive). Known findings: KNOWN_FINDINGS.",
    )
    with open(os.path.join(VERIF, "MANIFEST.json"), "w") as fh:
        json.dump(m, fh, indent=1)
    print("checks:", [c["property_id"] for c in checks], "not_applicable:", len(na))

main()

#!/venv/bin/python
"""Register and evaluate an independently written seeded change.

  tools/seeded.py add <name> <property> <worktree> --needs "<what it needs to manifest>" [--checks C10,C12] [--tier quick]
  tools/seeded.py eval <name> [--checks ...] [--tier quick|thorough] [--in-repo]

add : copies <worktree>/patch.diff and demo.py to seeded/<name>/, confirms on a scratch copy of /repo that
      (1) the repository suite still passes with the patch, (2) the demo fails with it and passes without it,
      then runs the checks and writes meta.json.
eval: re-runs the checks against an already registered change (scratch copy; --in-repo applies the patch to
      /repo itself with `git apply` and undoes it with `git checkout -- .` afterwards).
"""
import argparse
import json
import os
import shutil
import subprocess
import sys
import tempfile

VERIF = os.path.dirname(os.path.dirname(os.path.abspath(__file__)))
TESTS = ["/venv/bin/python", "-m", "pytest", "-q", "-p", "no:cacheprovider", "--no-header", "-o", "addopts=", "--timeout=60",
         "--deselect", "tests/test_simple_functions.py::test_connection_del_future",
         "--deselect", "tests/test_simple_functions.py::test_connection_not_in_storage",
         "--deselect", "tests/test_simple_functions.py::test_get_paths_windows_traverse",
         "-p", "no:anyio", "--import-mode=importlib", "tests"]


def scratch(patch):
    d = tempfile.mkdtemp(prefix="aioftp_seed_")
    shutil.copytree("/repo/src", os.path.join(d, "src"))
    shutil.copytree("/repo/tests", os.path.join(d, "tests"))
    shutil.copy("/repo/pyproject.toml", d)
    subprocess.check_call(["patch", "-p1", "-s", "-d", d, "-i", patch])
    return d


def run_checks(src, checks, tier):
    out = {}
    env = dict(os.environ, AIOFTP_SRC=src, PYTHONPATH=src)
    for c in checks:
        r = subprocess.run([os.path.join(VERIF, "run_check.py"), c, "--no-evidence", "--tier", tier], cwd=VERIF, env=env,
                           capture_output=True, text=True)
        sigs = [l.strip()[len("signature: "):] for l in r.stdout.splitlines() if l.strip().startswith("signature:")]
        out[c] = dict(rc=r.returncode, caught=r.returncode == 1, signatures=sigs[:6])
        print(f"   {c}: {'CAUGHT' if r.returncode == 1 else ('missed' if r.returncode == 0 else 'HARNESS rc=%d' % r.returncode)} {sigs[:3]}", flush=True)
        if r.returncode == 2:
            print(r.stdout[-800:])
    rp = os.path.join(VERIF, "replays")
    for f in os.listdir(rp):
        if f.endswith(".json"):
            os.remove(os.path.join(rp, f))
    return out


def all_checks():
    return [c["property_id"] for c in json.load(open(os.path.join(VERIF, "MANIFEST.json")))["checks"]]


def main():
    ap = argparse.ArgumentParser()
    ap.add_argument("cmd", choices=["add", "eval"])
    ap.add_argument("name")
    ap.add_argument("prop", nargs="?")
    ap.add_argument("worktree", nargs="?")
    ap.add_argument("--needs", default="")
    ap.add_argument("--checks", default=None)
    ap.add_argument("--tier", default="quick")
    ap.add_argument("--in-repo", action="store_true")
    a = ap.parse_args()
    sd = os.path.join(VERIF, "seeded", a.name)
    if a.cmd == "add":
        os.makedirs(sd, exist_ok=True)
        shutil.copy(os.path.join(a.worktree, "patch.diff"), os.path.join(sd, "patch.diff"))
        shutil.copy(os.path.join(a.worktree, "demo.py"), os.path.join(sd, "demo.py"))
    patch = os.path.join(sd, "patch.diff")
    meta_path = os.path.join(sd, "meta.json")
    meta = json.load(open(meta_path)) if os.path.exists(meta_path) else {}
    checks = a.checks.split(",") if a.checks else all_checks()
    if a.in_repo:
        subprocess.check_call(["git", "-C", "/repo", "apply", patch])
        try:
            res = run_checks("/repo/src", checks, a.tier)
        finally:
            subprocess.check_call(["git", "-C", "/repo", "checkout", "--", "."])
        meta.setdefault("runs", []).append(dict(mode="git apply in /repo", tier=a.tier, results=res))
    else:
        d = scratch(patch)
        try:
            if a.cmd == "add":
                env = dict(os.environ, PYTHONPATH=os.path.join(d, "src"))
                r = subprocess.run(TESTS, cwd=d, env=env, capture_output=True, text=True)
                tail = r.stdout.strip().splitlines()[-1] if r.stdout.strip() else r.stderr[-200:]
                print("repo suite with the patch:", tail)
                demo = os.path.join(sd, "demo.py")
                r1 = subprocess.run(["/venv/bin/python", demo], env=env, capture_output=True, text=True, timeout=600, cwd=d)
                r0 = subprocess.run(["/venv/bin/python", demo], env=dict(os.environ, PYTHONPATH="/repo/src"), capture_output=True,
                                    text=True, timeout=600, cwd=d)
                print("demo with the patch: exit", r1.returncode, "| without:", r0.returncode)
                ok = ("passed" in tail and "failed" not in tail) and r1.returncode != 0 and r0.returncode == 0
                meta.update(property=a.prop, needs_to_manifest=a.needs, confirmed=ok,
                            ran=dict(suite=" ".join(TESTS), suite_result=tail, demo_with_patch_exit=r1.returncode,
                                     demo_without_patch_exit=r0.returncode, demo_output_with_patch=(r1.stdout + r1.stderr)[-600:]))
                if not ok:
                    print("NOT CONFIRMED - not kept as a seeded change")
            res = run_checks(os.path.join(d, "src"), checks, a.tier)
            meta.setdefault("runs", []).append(dict(mode="scratch copy via AIOFTP_SRC", tier=a.tier, results=res))
        finally:
            shutil.rmtree(d, ignore_errors=True)
    meta["caught_by"] = sorted({c for run in meta.get("runs", []) for c, v in run["results"].items() if v["caught"]})
    json.dump(meta, open(meta_path, "w"), indent=1)
    print("caught by:", meta["caught_by"])


if __name__ == "__main__":
    main()

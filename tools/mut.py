#!/venv/bin/python
"""Mutation-sensitivity helper.

  tools/mut.py <PROP[,PROP..]> <relfile> <old> <new> [--tests] [--count N] [--args "..."]

Copies /repo (src + tests) to a scratch dir outside /repo and /verif, applies one textual replacement
to src/aioftp/<relfile>, optionally runs the repository's test-suite against the mutant (must still
pass for the mutant to be 'realistic'), runs the given checks with AIOFTP_SRC pointing at the mutant,
prints CAUGHT/MISSED per check and removes the scratch dir.
"""
import argparse
import os
import shutil
import subprocess
import sys
import tempfile

VERIF = os.path.dirname(os.path.dirname(os.path.abspath(__file__)))


def main():
    ap = argparse.ArgumentParser()
    ap.add_argument("props")
    ap.add_argument("relfile")
    ap.add_argument("old")
    ap.add_argument("new")
    ap.add_argument("--tests", action="store_true")
    ap.add_argument("--count", type=int, default=1)
    ap.add_argument("--args", default="")
    ap.add_argument("--patch", default=None, help="apply a unified diff instead of old/new")
    a = ap.parse_args()
    d = tempfile.mkdtemp(prefix="aioftp_mut_")
    try:
        shutil.copytree("/repo/src", os.path.join(d, "src"))
        if a.patch:
            subprocess.check_call(["patch", "-p1", "-s", "-d", d, "-i", os.path.abspath(a.patch)])
        else:
            p = os.path.join(d, "src", "aioftp", a.relfile)
            s = open(p).read()
            n = s.count(a.old)
            if n != a.count:
                print(f"pattern occurs {n} times, expected {a.count}")
                return 2
            open(p, "w").write(s.replace(a.old, a.new))
        env = dict(os.environ, AIOFTP_SRC=os.path.join(d, "src"), PYTHONPATH=os.path.join(d, "src"))
        if a.tests:
            shutil.copytree("/repo/tests", os.path.join(d, "tests"))
            shutil.copy("/repo/pyproject.toml", d)
            r = subprocess.run(["/venv/bin/python", "-m", "pytest", "-q", "-p", "no:cacheprovider", "--no-header", "-o", "addopts=", "--timeout=60",
                                "--deselect", "tests/test_simple_functions.py::test_connection_del_future",
                                "--deselect", "tests/test_simple_functions.py::test_connection_not_in_storage",
                                "--deselect", "tests/test_simple_functions.py::test_get_paths_windows_traverse", "-p", "no:anyio", "--import-mode=importlib", "tests"], cwd=d, env=env, capture_output=True, text=True)
            tail = r.stdout.strip().splitlines()[-1] if r.stdout.strip() else r.stderr[-300:]
            print("repo tests on mutant:", tail)
            for l in r.stdout.splitlines():
                if l.startswith("FAILED"):
                    print("    ", l[:200])
        rc_all = 0
        for prop in a.props.split(","):
            r = subprocess.run([os.path.join(VERIF, "run_check.py"), prop, "--no-evidence"] + a.args.split(),
                               cwd=VERIF, env=env, capture_output=True, text=True)
            sigs = [l.strip() for l in r.stdout.splitlines() if l.startswith("VIOLATION") or l.strip().startswith("signature:")]
            verdict = "CAUGHT" if r.returncode == 1 else ("MISSED" if r.returncode == 0 else f"HARNESS rc={r.returncode}")
            print(f"{prop}: {verdict}")
            for s in sigs[:8]:
                print("    ", s)
            if r.returncode not in (0, 1):
                print(r.stdout[-1500:], r.stderr[-1500:])
            summary = [l for l in r.stdout.splitlines() if " seed=" in l and "evaluations=" in l]
            for s in summary:
                print("    ", s)
        return rc_all
    finally:
        shutil.rmtree(d, ignore_errors=True)
        # replay files written by mutant runs are scratch
        rp = os.path.join(VERIF, "replays")
        for f in os.listdir(rp):
            if f.endswith(".json"):
                os.remove(os.path.join(rp, f))


if __name__ == "__main__":
    sys.exit(main())

#!/usr/bin/env python3
"""Run every registered check (quick or thorough) for one or more seeds; print a table.  tools/run_all.py [--tier T] [--seeds 1,2,3] [--no-evidence]"""
import argparse, json, os, subprocess, sys, time
VERIF = os.path.dirname(os.path.dirname(os.path.abspath(__file__)))
ap = argparse.ArgumentParser()
ap.add_argument("--tier", default="quick")
ap.add_argument("--seeds", default="1")
ap.add_argument("--no-evidence", action="store_true")
ap.add_argument("--only", default=None)
a = ap.parse_args()
m = json.load(open(os.path.join(VERIF, "MANIFEST.json")))
bad = 0
for seed in a.seeds.split(","):
    for c in m["checks"]:
        pid = c["property_id"]
        if a.only and pid not in a.only.split(","):
            continue
        cmd = [os.path.join(VERIF, "run_check.py"), pid, "--tier", a.tier] + (["--no-evidence"] if a.no_evidence else [])
        t = time.time()
        r = subprocess.run(cmd, cwd=VERIF, env=dict(os.environ, VERIF_SEED=seed), capture_output=True, text=True)
        line = [l for l in r.stdout.splitlines() if l.startswith(pid + " ")]
        viol = [l for l in r.stdout.splitlines() if l.startswith("VIOLATION") or l.strip().startswith("signature:")]
        print(f"seed={seed} {pid} rc={r.returncode} {time.time()-t:6.1f}s  {line[0] if line else r.stdout[-300:] + r.stderr[-300:]}", flush=True)
        for v in viol:
            print("      ", v)
        if r.returncode != 0:
            bad += 1
            if r.returncode == 2:
                print(r.stdout[-1500:])
sys.exit(1 if bad else 0)

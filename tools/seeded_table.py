#!/usr/bin/env python3
"""Rewrites the table at the end of DESIGN.md section 7 from seeded/*/meta.json."""
import glob, json, os
VERIF = os.path.dirname(os.path.dirname(os.path.abspath(__file__)))
rows = []
for d in sorted(glob.glob(os.path.join(VERIF, "seeded", "*", "meta.json"))):
    m = json.load(open(d)); name = os.path.basename(os.path.dirname(d))
    own = m["property"]
    first = m["runs"][0]["results"]
    first_any = sorted(c for c, v in first.items() if v["caught"])
    status = "yes" if first.get(own, {}).get("caught") else ("by " + ", ".join(first_any) + " only; own check after strengthening" if first_any else "no - after strengthening")
    if m.get("superseded"):
        status += " (superseded: " + m["superseded"] + ")"
    rows.append((name, own, m["needs_to_manifest"], ", ".join(m["caught_by"]) or "-", status))
out = ["| seeded change (directory under `seeded/`) | property | needs, in order to manifest | caught by | own check caught it at first try |", "|---|---|---|---|---|"]
out += ["| `%s` | %s | %s | %s | %s |" % r for r in rows]
p = os.path.join(VERIF, "DESIGN.md")
s = open(p).read()
marker = "<!-- seeded-table -->"
head = s.split(marker)[0]
open(p, "w").write(head + marker + "\n" + "\n".join(out) + "\n")
n_first = sum(1 for r in rows if r[4].startswith("yes"))
print(len(rows), "seeded changes;", n_first, "caught by their own check at the first try;", sum(1 for r in rows if r[3] != "-"), "caught now")

#!/usr/bin/env python3
"""Re-evaluates every registered seeded change (own check only, quick tier) against the current /repo tree.
   tools/reeval_all.py [prefix]   -> prints one line per change and a summary; meta.json gets the new run appended."""
import glob, json, os, subprocess, sys
VERIF = os.path.dirname(os.path.dirname(os.path.abspath(__file__)))
pref = sys.argv[1] if len(sys.argv) > 1 else ""
missed, caught, skipped = [], [], []
for mf in sorted(glob.glob(os.path.join(VERIF, "seeded", "*", "meta.json"))):
    name = os.path.basename(os.path.dirname(mf))
    if not name.startswith(pref):
        continue
    m = json.load(open(mf))
    if m.get("superseded"):
        skipped.append(name)
        continue
    r = subprocess.run([os.path.join(VERIF, "tools", "seeded.py"), "eval", name, "--checks", m["property"]], capture_output=True, text=True, cwd=VERIF)
    ok = "CAUGHT" in r.stdout
    (caught if ok else missed).append(name)
    print(("CAUGHT " if ok else "MISSED ") + name, flush=True)
print(f"caught {len(caught)}  missed {len(missed)}  superseded (not run) {len(skipped)}")
for n in missed:
    print("  MISSED:", n)

#!/venv/bin/python
"""Entry point of every registered check:  run_check.py <ID> [--tier quick|thorough] [--replay FILE]

Exit 0: property held on everything explored.  Exit 1: VIOLATION line(s).  Exit 2: harness error.
Imports aioftp from $AIOFTP_SRC (default /repo/src), i.e. from the repository's working tree.
"""
import os
import subprocess
import sys

VERIF = os.path.dirname(os.path.abspath(__file__))
sys.path.insert(0, VERIF)
os.environ.setdefault("AIOFTP_VERIF", "1")


def ensure_deps():
    try:
        import hypothesis  # noqa
    except ImportError:
        subprocess.check_call([sys.executable, "-m", "pip", "install", "-q", "--no-index",
                               "--find-links", "/opt/veriftools/wheels", "hypothesis"])
    deps = os.path.join(VERIF, ".deps")
    if not os.path.isdir(os.path.join(deps, "atheris")):
        subprocess.call([sys.executable, "-m", "pip", "install", "-q", "--no-index", "--find-links",
                         "/opt/veriftools/wheels", "--target", deps, "atheris"])
    if deps not in sys.path:
        sys.path.append(deps)


def main():
    if len(sys.argv) < 2:
        print(__doc__)
        return 2
    if os.environ.get("PYTHONHASHSEED") != "0":
        os.environ["PYTHONHASHSEED"] = "0"
        os.execv(sys.executable, [sys.executable] + sys.argv)
    ensure_deps()
    from vlib import runner

    prop = sys.argv[1]
    if prop == "--calibrate":
        from vlib import calibrate
        return calibrate.main()
    try:
        return runner.main("checks." + prop.lower(), sys.argv[2:])
    except SystemExit:
        raise
    except BaseException as e:  # noqa
        import traceback
        traceback.print_exc()
        print(f"HARNESS-ERROR (inconclusive): {type(e).__name__}: {e}")
        return 2


if __name__ == "__main__":
    sys.exit(main())

"""C13 - backend failures are contained: 451, data channel closed, session lives on, neighbours unaffected."""

import asyncio
import re

from hypothesis import strategies as st

from vlib import harness, simnet
from vlib.ftpmodel import DIR
from vlib.harness import HOST, PORT, aioftp, instrument
from vlib.runner import Violation, hyp_run
from vlib.scripts import CORPUS, PAY2, ScriptRunner, c, down, render, up

PROPERTY = "C13"
LEVEL = "fault_enumeration"
RULE = ("enumeration: for every script of the corpus (all verbs and transfer kinds, EPSV/PASV, data connection before / "
        "after the 150) on the memory and PathIO backends, a dry run counts the n backend calls made on behalf of the "
        "victim session (exists, is_dir, is_file, stat, list step, mkdir, rmdir, unlink, rename, open, seek, read, "
        "write, close); then one run per k = 1..n with the k-th call raising OSError (thorough: also all pairs on the "
        "transfer scripts, other exception types, Hypothesis-sampled fault sets / tapes / AsyncPathIO), while a "
        "neighbour session runs its own script concurrently. Oracle: the command during which the fault fired gets "
        "exactly one final reply and it is 451 (never 2xx); if a 150 was sent the server closes the data connection "
        "(ledger) and a downloading peer sees EOF; afterwards the same session answers PWD and completes an upload + "
        "download round trip; the neighbour's transcript equals its solo transcript. Non-trivial = the fault hits "
        "inside a transfer worker or a listing iteration (a 150 had been sent); distinct by (script, backend, fault set). "
        "afterabort: enumerated (aborted transfer kind or idle ABOR or none) x (later transfer kind) x (failing backend call, 1st/2nd occurrence): 150 + 451 only, PWD next, silence; non-trivial = the fault fired in a session with an interrupted transfer in its past.")
ASSUMPTIONS = [
    "faults are exceptions raised inside the backend call under universal_exception (as a failing filesystem would)",
    "after the faulted command the rest of the script is only required to be answered (its outcomes legitimately differ)",
]
REPLAY_ATTEMPTS = 2

SCRIPTS = {k: v for k, v in CORPUS.items() if k not in ("abort",)}
SCRIPTS["lists"] = [c("USER anonymous"), c("MKD {r}"), c("MKD {r}/d1"), c("EPSV"), up("STOR {r}/f1", PAY2), up("STOR {r}/f2", PAY2),
                    down("LIST {r}"), down("MLSD {r}"), down("LIST {r}/f1"), c("MLST {r}"), c("MLST {r}/f1"), c("CWD {r}/d1"),
                    c("CDUP"), c("RNFR {r}/f1"), c("RNTO {r}/d1/f1"), c("DELE {r}/f2"), c("DELE {r}/d1/f1"), c("RMD {r}/d1"),
                    c("RMD {r}"), c("QUIT")]
NEIGHBOUR = "pasv_after"
import errno as _errno

EXC = {"oserror": lambda name: OSError(5, "injected @" + name), "value": lambda name: ValueError("injected @" + name),
       "perm": lambda name: PermissionError(13, "injected @" + name), "runtime": lambda name: RuntimeError("injected @" + name),
       "eof": lambda name: EOFError("injected @" + name), "timeout": lambda name: TimeoutError("injected @" + name),
       "etimedout": lambda name: OSError(_errno.ETIMEDOUT, "injected @" + name),
       "connreset": lambda name: ConnectionResetError(104, "injected @" + name), "key": lambda name: KeyError("injected @" + name),
       "assertion": lambda name: AssertionError("injected @" + name), "unicode": lambda name: UnicodeDecodeError("utf-8", b"x", 0, 1, name),
       "invalidstate": lambda name: asyncio.InvalidStateError("injected @" + name), "lookup": lambda name: IndexError("injected @" + name),
       "memory": lambda name: MemoryError("injected @" + name), "brokenpipe": lambda name: BrokenPipeError(32, "injected @" + name)}
# NotImplementedError and StopAsyncIteration are the two exception types the path-io layer documents as passing through.
EXC_ROTATION = ["timeout", "etimedout", "connreset", "key", "value", "perm", "runtime", "eof", "assertion", "unicode", "invalidstate",
                "lookup", "memory", "brokenpipe"]


def normalise(transcript):
    out = []
    for rec in transcript:
        d = rec.get("data")
        if d is not None:
            d = re.sub(rb"(Modify|Create)=\d+;", b"", d)
            d = re.sub(rb"[A-Z][a-z]{2} [ \d]\d (\d\d:\d\d| \d{4})", b"<date>", d)
        out.append((rec.get("line"), tuple(rec["codes"]), d))
    return out


async def _scenario(loop, script_name, backend, fail_at, tmp, exc="oserror", with_neighbour=True):
    ctl = harness.Ctl()
    ctl.fail_at_disabled = False
    skw = {}
    if exc == "path_timeout":
        # the k-th blocking call of AsyncPathIO takes 5 virtual seconds in its executor thread; path_timeout is 1 s
        skw["path_timeout"] = 1.0
        ctl.on_call = None
        slow_at = set(fail_at)
        orig_hit = ctl.hit

        async def hit(name, path=None, conn=None):
            await orig_hit(name, path, conn)
            if ctl.scope is None or ctl.scope(conn):
                if ctl.n in slow_at and not ctl.fail_at_disabled:
                    loop.exec_slow[loop.exec_calls + 1] = 5.0
                    ctl.fired.append((ctl.n, name))
                    if ctl.on_fire:
                        ctl.on_fire(ctl.n, name)

        ctl.hit = hit
    else:
        ctl.fail_at = set(fail_at)
        ctl.exc_factory = EXC[exc]
    fac = instrument(harness.BACKENDS[backend], ctl)
    users = [aioftp.User(base_path=tmp)] if backend != "mem" else [aioftp.User()]
    server = aioftp.Server(users, path_io_factory=fac, wait_future_timeout=2, block_size=64, **skw)
    await server.start(HOST, PORT)
    victim = ScriptRunner(render(SCRIPTS[script_name], "/v"))
    fired_steps = []
    victim_port = []
    ctl.scope = lambda conn: conn is not None and victim_port and conn.client_port == victim_port[0]
    ctl.on_fire = lambda n, name: fired_steps.append((victim.step, n, name))
    # the victim connects first so that its control connection has a known client port
    code, _ = await victim.raw.connect()
    victim_port.append(victim.raw.w.transport.get_extra_info("sockname")[1])
    victim.transcript.append(dict(line=None, codes=[code]))

    async def run_victim():
        try:
            for i, st_ in enumerate(victim.script):
                victim.step = i
                if not await victim.do(st_):
                    break
        except (ConnectionError, OSError, asyncio.IncompleteReadError):
            victim.dead = True

    tasks = [asyncio.ensure_future(run_victim())]
    nb = None
    if with_neighbour:
        nb = ScriptRunner(render(CORPUS[NEIGHBOUR], "/n"))
        tasks.append(asyncio.ensure_future(nb.run()))
    done, pending = await asyncio.wait(tasks, timeout=5000)
    for t in pending:
        t.cancel()
    hung = bool(pending)
    # probe: the victim session must still work (all faults have fired or are behind us)
    ctl.fail_at = set()
    ctl.fail_at_disabled = True
    calls_in_script = ctl.n
    probe = []
    raw = victim.raw
    last = victim.transcript[-1]
    ended = last["codes"] and last["codes"][-1] in ("221", "EOF") or (last.get("line") or "").upper().startswith("QUIT")
    if not ended and not hung:
        probe.append((await raw.cmd("PWD"))[0])
        code, _ = await raw.cmd("EPSV")
        probe.append(code)
        if code == "229":
            if victim.data is not None:
                victim.data[1].close()
                victim.data = None
            rw = await raw.open_data()
            await asyncio.sleep(0.3)
            code, _ = await raw.cmd("STOR /probe-file")
            probe.append(code)
            if code == "150":
                rw[1].write(b"probe-bytes")
                rw[1].close()
                probe.append((await raw.reply())[0])
                rw = await raw.open_data()
                await asyncio.sleep(0.3)
                code, _ = await raw.cmd("RETR /probe-file")
                probe.append(code)
                if code == "150":
                    data, eof = await harness.read_all(rw[0])
                    rw[1].close()
                    probe.append("data_ok" if data == b"probe-bytes" and eof else "data_bad")
                    probe.append((await raw.reply())[0])
    open_data = [t for t in loop.net.open_transports if t.side == "s" and t.listener_port != PORT and not t._closing]
    handles = ctl.open_handles
    victim.close()
    if nb:
        nb.close()
    await asyncio.wait_for(server.close(), 1000)
    return dict(transcript=victim.transcript, fired=fired_steps, calls=calls_in_script, probe=probe, ended=ended, hung=hung,
                open_data=len(open_data), handles=handles, neighbour=normalise(nb.transcript) if nb else None,
                script=victim.script)


def run_case(script_name, backend, fail_at, exc="oserror", tape=(), with_neighbour=True):
    with harness.TempDirs() as td:
        tmp = td.new() if backend != "mem" else None
        return simnet.run(lambda loop: _scenario(loop, script_name, backend, fail_at, tmp, exc, with_neighbour), tape)


_SOLO = {}


def solo_neighbour(backend, tape=()):
    key = (backend, tuple(tape))
    if key not in _SOLO:
        async def go(loop, tmp):
            users = [aioftp.User(base_path=tmp)] if backend != "mem" else [aioftp.User()]
            server = aioftp.Server(users, path_io_factory=instrument(harness.BACKENDS[backend], harness.Ctl()),
                                   wait_future_timeout=2, block_size=64)
            await server.start(HOST, PORT)
            nb = ScriptRunner(render(CORPUS[NEIGHBOUR], "/n"))
            await nb.run()
            nb.close()
            await server.close()
            return normalise(nb.transcript)

        with harness.TempDirs() as td:
            tmp = td.new() if backend != "mem" else None
            _SOLO[key] = simnet.run(lambda loop: go(loop, tmp), tape)
    return _SOLO[key]


def judge(script_name, backend, fail_at, out, solo, tag):
    detail = dict(script=script_name, backend=backend, fail_at=sorted(fail_at), fired=out["fired"],
                  transcript=[(r.get("line"), r["codes"]) for r in out["transcript"]], probe=out["probe"])

    def bad(sym, step=None):
        line = out["script"][step].get("line") if step is not None and 0 <= step < len(out["script"]) else None
        verb = (line or "?").split(" ")[0].upper()
        op = next((name for s_, n, name in out["fired"] if s_ == step), out["fired"][0][2] if out["fired"] else "?")
        raise Violation(f"C13/{tag}/{verb}/{op}/{sym}", dict(detail, step=step, line=line))

    if out["hung"]:
        bad("session_hung")
    in_worker = False
    for step, n, name in out["fired"]:
        rec = out["transcript"][step + 1] if step + 1 < len(out["transcript"]) else None
        if rec is None:
            bad("no_record_for_faulted_command", step)
        codes = rec["codes"]
        if "EOF" in codes:
            bad("session_closed", step)
        if "SILENCE" in codes:
            bad("no_final_reply", step)
        if codes[-1] != "451":
            bad("final_reply_" + codes[-1] + "_instead_of_451", step)
        if len(codes) > 2 or (len(codes) == 2 and codes[0] != "150"):
            bad("extra_replies_" + "+".join(codes), step)
        if codes[0] == "150":
            in_worker = True
            if rec.get("eof") is False:
                bad("downloading_peer_not_given_eof", step)
    for rec in out["transcript"]:
        if any(x in ("SILENCE", "GARBAGE") for x in rec["codes"]):
            bad("later_command_unanswered")
    if out["open_data"]:
        bad("data_connection_left_open", out["fired"][0][0] if out["fired"] else None)
    if out["handles"]:
        bad("backend_handle_left_open", out["fired"][0][0] if out["fired"] else None)
    if not out["ended"]:
        if out["probe"] != ["257", "229", "150", "226", "150", "data_ok", "226"]:
            bad("session_unusable_afterwards", out["fired"][0][0] if out["fired"] else None)
    if solo is not None and out["neighbour"] != solo:
        diff = [(a, b) for a, b in zip(out["neighbour"], solo) if a != b][:2]
        detail["neighbour_diff"] = diff
        bad("neighbour_disturbed", out["fired"][0][0] if out["fired"] else None)
    return in_worker


def cases(tier):
    out = []
    for backend in ("mem", "fs"):
        for name in sorted(SCRIPTS):
            dry = run_case(name, backend, set(), with_neighbour=False)
            n = dry["calls"]
            for k in range(1, n + 1):
                out.append((name, backend, (k,), "oserror"))
            if tier == "thorough" or name in ("tour", "lists", "restart"):
                # other exception types a backend can plausibly raise, rotating over the positions
                for k in range(1, n + 1):
                    out.append((name, backend, (k,), EXC_ROTATION[(k + len(name)) % len(EXC_ROTATION)]))
            if tier == "thorough" and name in ("tour", "restart", "lists"):
                for k in range(1, n + 1):
                    for j in range(k + 1, min(n, k + 12) + 1):
                        out.append((name, backend, (k, j), "oserror"))
                for k in range(1, n + 1):
                    out.append((name, backend, (k,), EXC_ROTATION[(k * 5 + 3) % len(EXC_ROTATION)]))
    return out


def part_enumerate(ctx):
    cs = cases(ctx.tier)
    ctx.extra["positions_total"] = len(cs) if ctx.shard == 0 else 0
    for name, backend, fail_at, exc in cs[ctx.shard::ctx.nshards]:
        out = run_case(name, backend, set(fail_at), exc)
        try:
            in_worker = judge(name, backend, fail_at, out, solo_neighbour(backend), "enum")
        except Violation as v:
            in_worker = True
            ctx.fail(v.sig, dict(script=name, backend=backend, fail_at=list(fail_at), exc=exc), v.detail)
        ops = [nm for _s, _n, nm in out["fired"]]
        ctx.count((name, backend, fail_at, exc), in_worker,
                  sample=dict(script=name, backend=backend, fail_at=list(fail_at), exception=exc, fired=out["fired"],
                              faulted=[(out["transcript"][s + 1].get("line"), out["transcript"][s + 1]["codes"]) for s, _n, _nm in out["fired"] if s + 1 < len(out["transcript"])]),
                  classes=["be_" + backend, "script_" + name] + ["op_" + o for o in ops] + (["in_worker"] if in_worker else ["in_command"])
                  + ([] if out["fired"] else ["fault_not_reached"]))
    ctx.exhaustive = False


def replay_enumerate(case):
    out = run_case(case["script"], case["backend"], set(case["fail_at"]), case.get("exc", "oserror"))
    judge(case["script"], case["backend"], case["fail_at"], out, solo_neighbour(case["backend"]), "enum")


SAMPLED = st.tuples(st.sampled_from(sorted(SCRIPTS)), st.sampled_from(["mem", "fs", "afs", "afs"]),
                    st.lists(st.integers(1, 120), min_size=1, max_size=4, unique=True), st.sampled_from(sorted(EXC) + ["path_timeout"] * 4),
                    st.lists(st.integers(0, 255), max_size=30))


def check_sampled(ctx, case):
    name, backend, fail_at, exc, tape = case
    if exc == "path_timeout":
        backend = "afs"  # the only shipped backend whose calls are bounded by path_timeout
    out = run_case(name, backend, set(fail_at), exc, tape)
    solo = solo_neighbour(backend, tape) if not tape else None  # timing-dependent listings: only on the default tape
    in_worker = False
    try:
        in_worker = judge(name, backend, fail_at, out, solo, "tapes")
    finally:
        ctx.count(case, in_worker or len(out["fired"]) > 1,
                  sample=dict(script=name, backend=backend, fail_at=fail_at, exception=exc, tape=tape[:8], fired=out["fired"]),
                  classes=["be_" + backend, "exc_" + exc, "faults_fired_%d" % len(out["fired"])])


def part_tapes(ctx):
    n = 150 if ctx.tier == "quick" else 10000
    hyp_run(ctx, SAMPLED, lambda c: check_sampled(ctx, c), n, name="tapes")


def replay_tapes(case):
    from vlib.runner import Ctx
    check_sampled(Ctx(PROPERTY, "tapes", "quick", 0, 0, 1), tuple(case))


# ---------------------------------------------------------------- faults while further commands are already queued
BATCHES = [
    ["MKD /p", "MKD /p/q", "CWD /p", "MLST q", "RNFR q", "RNTO r", "RMD r", "CDUP", "DELE /nofile", "RMD /p", "PWD"],
    ["MKD /a", "MKD /b", "RNFR /a", "RNTO /b/a", "MLST /b/a", "RMD /b/a", "RMD /b", "SYST", "PWD"],
    ["DELE /x", "MKD /x", "MKD /x", "CWD /x", "PWD", "CDUP", "RMD /x", "RMD /x", "NOOP", "PWD"],
]


async def _pipelined(loop, batch_i, k, exc, split):
    ctl = harness.Ctl()
    ctl.fail_at = {k} if k else set()
    ctl.exc_factory = EXC[exc]
    server = aioftp.Server(path_io_factory=instrument(aioftp.MemoryPathIO, ctl), wait_future_timeout=2)
    await server.start(HOST, PORT)
    raw = harness.Raw(HOST, PORT, patience=8)
    await raw.connect()
    await raw.cmd("USER anonymous")
    batch = BATCHES[batch_i]
    data = "".join(c_ + "\r\n" for c_ in batch).encode()
    # the whole batch in one segment, or cut in two at an arbitrary byte
    if split:
        cut = (split * 7) % len(data)
        raw.send(data[:cut])
        await asyncio.sleep(0.01)
        raw.send(data[cut:])
    else:
        raw.send(data)
    replies = []
    for _ in batch:
        code, _l = await raw.reply(8)
        replies.append(code)
        if code in ("EOF", "SILENCE", "GARBAGE"):
            break
    quiet, extra = await raw.silence(1.0)
    after = (await raw.cmd("PWD"))[0] if replies[-1] != "EOF" else "EOF"
    raw.close()
    await asyncio.wait_for(server.close(), 1000)
    return dict(replies=replies, fired=list(ctl.fired), calls=ctl.n, extra=None if quiet else extra, after=after, batch=batch)


def judge_pipelined(case, out, baseline):
    batch_i, k, exc, split = case
    detail = dict(batch=out["batch"], k=k, exc=exc, replies=out["replies"], fired=out["fired"], baseline=baseline)
    op = out["fired"][0][1] if out["fired"] else "none"

    def bad(sym):
        raise Violation(f"C13/pipelined/{op}/{sym}", detail)

    if "EOF" in out["replies"]:
        bad("session_closed")
    if "SILENCE" in out["replies"] or len(out["replies"]) != len(out["batch"]):
        bad("queued_command_never_answered")
    if out["extra"]:
        bad("extra_reply")
    if out["fired"] and "451" not in out["replies"]:
        bad("fault_not_reported_as_451")
    if out["after"] != "257":
        bad("session_unusable_afterwards")
    # replies are matched to commands by their order: up to the failing command the replies are those of the fault-free run,
    # and the first one that differs is the 451 (the failed command is "never answered with a success reply")
    if out["fired"]:
        base = baseline
        i = next((j for j, (a, b) in enumerate(zip(out["replies"], base)) if a != b), None)
        if i is not None and out["replies"][i] != "451":
            detail["first_difference_at"] = i
            bad("reply_of_failed_command_out_of_place")


# ---------------------------------------------------------------- the backend fails while a transfer is being aborted
async def _abortfault(loop, kind, op, after):
    ctl = harness.Ctl()
    ctl.delays = {"read": 0.2, "write": 0.2}
    server = aioftp.Server(path_io_factory=instrument(aioftp.MemoryPathIO, ctl), block_size=8, wait_future_timeout=2)
    await server.start(HOST, PORT)
    harness.mem_populate(server, {"/": DIR, "/f": bytes(range(200)), "/g": b"old"})
    raw = harness.Raw(HOST, PORT, patience=6)
    await raw.connect()
    await raw.cmd("USER anonymous")
    await raw.cmd("EPSV")
    dr, dw = await raw.open_data()
    await asyncio.sleep(0.1)
    code, _ = await raw.cmd({"RETR": "RETR /f", "STOR": "STOR /n", "APPE": "APPE /g"}[kind])
    replies = [code]
    if code == "150":
        if kind != "RETR":
            dw.write(b"x" * 40)
        await asyncio.sleep(after)
        # every later call of `op` fails: the one made while the worker is being cancelled included
        ctl.fail_names = {op}
        raw.send("ABOR")
        while len(replies) < 6:
            c_, _l = await raw.reply()
            replies.append(c_)
            if c_ in ("EOF", "SILENCE"):
                break
    ctl.fail_names = set()
    follow = (await raw.cmd("PWD"))[0] if replies[-1] != "EOF" else None
    _d, eof = await harness.read_all(dr, 3)
    raw.close()
    dw.close()
    await asyncio.wait_for(server.close(), 1000)
    return dict(replies=replies, follow=follow, data_eof=eof, fired=list(ctl.fired))


def judge_abortfault(case, out):
    kind, op, after = case
    detail = dict(kind=kind, failing=op, abor_after=after, **out)
    r = [x for x in out["replies"] if x not in ("SILENCE",)]
    if "EOF" in r:
        raise Violation(f"C13/abortfault/{op}/session_closed", detail)
    # the transfer ends with 426 or, when the backend failed, 451 - never with a success reply; the ABOR gets its own 226
    if len(r) != 3 or r[0] != "150" or r[1] not in ("426", "451") or r[2] != "226":
        sym = "abor_unanswered" if len(r) < 3 else "reply_sequence_" + "+".join(r)
        raise Violation(f"C13/abortfault/{op}/{sym}", detail)
    if out["fired"] and r[1] != "451" and False:
        pass
    if out["follow"] != "257":
        raise Violation(f"C13/abortfault/{op}/session_unusable_afterwards", detail)
    if out["data_eof"] is False:
        raise Violation(f"C13/abortfault/{op}/data_connection_left_open", detail)


def abortfault_cases(tier):
    return [(k, op, a) for k in ("RETR", "STOR", "APPE") for op in ("close", "read" if True else "", "write", "seek") for a in (0.05, 0.3, 0.5)]


def part_abortfault(ctx):
    for case in abortfault_cases(ctx.tier)[ctx.shard::ctx.nshards]:
        out = simnet.run(lambda loop: _abortfault(loop, *case))
        ctx.count(("abortfault",) + case, bool(out["fired"]), sample=dict(kind=case[0], failing=case[1], abor_after=case[2], replies=out["replies"]),
                  classes=["abortfault_" + case[1], "fired" if out["fired"] else "not_reached"])
        try:
            judge_abortfault(case, out)
        except Violation as v:
            ctx.fail(v.sig, dict(kind="abortfault", case=list(case)), v.detail)


def replay_abortfault(case):
    c = tuple(case["case"])
    judge_abortfault(c, simnet.run(lambda loop: _abortfault(loop, *c)))


# ---- faults in a session that has an ABOR in its past -----------------------------------------------------------------------
SECOND = {"RETR": ("RETR /f", ["_open", "read", "close"]), "STOR": ("STOR /n2", ["_open", "write", "close"]),
          "APPE": ("APPE /g", ["_open", "write", "close"]), "LIST": ("LIST /", ["list.next", "stat", "is_dir"]),
          "MLSD": ("MLSD /", ["list.next", "stat"])}


async def _afterabort(loop, first, second, op, nth):
    """ABOR that interrupts a running `first`, answered 426 + 226; later `second` meets a backend fault in `op` (its nth call)."""
    ctl = harness.Ctl()
    ctl.delays = {"read": 0.2, "write": 0.2, "list.next": 0.2}
    server = aioftp.Server(path_io_factory=instrument(aioftp.MemoryPathIO, ctl), block_size=8, wait_future_timeout=2)
    await server.start(HOST, PORT)
    harness.mem_populate(server, {"/": DIR, "/f": bytes(range(200)), "/g": b"old", "/a": b"1", "/b": b"2", "/d": DIR})
    raw = harness.Raw(HOST, PORT, patience=6)
    await raw.connect()
    await raw.cmd("USER anonymous")
    out = dict(first=[], second=[], follow=None, extra=None, data_eof=None, fired=[])
    if first is not None:
        await raw.cmd("EPSV")
        dr, dw = await raw.open_data()
        code, _ = await raw.cmd({"RETR": "RETR /f", "STOR": "STOR /n", "LIST": "LIST /", "NONE": "PWD"}[first])
        out["first"].append(code)
        if first == "STOR":
            dw.write(b"x" * 40)
        await asyncio.sleep(0.3)
        raw.send("ABOR")
        for _ in range(2 if code == "150" else 1):
            c_, _l = await raw.reply()
            out["first"].append(c_)
        dw.close()
        if out["first"] not in (["150", "426", "226"], ["257", "226"]):
            out["skipped"] = True
            raw.close()
            await asyncio.wait_for(server.close(), 1000)
            return out
    await raw.cmd("EPSV")
    dr, dw = await raw.open_data()
    await asyncio.sleep(0.1)
    seen = [0]

    def scope(conn):
        return True

    base_hit = ctl.hit

    async def hit(name, path=None, conn=None):
        if name == op:
            seen[0] += 1
            if seen[0] == nth:
                ctl.fail_names = {op}
            else:
                ctl.fail_names = set()
        else:
            ctl.fail_names = set()
        return await base_hit(name, path, conn)

    ctl.hit = hit
    raw.send(SECOND[second][0])
    if second in ("STOR", "APPE"):
        dw.write(b"y" * 24)
        dw.write_eof()
    while len(out["second"]) < 4:
        c_, _l = await raw.reply(8)
        if c_ == "SILENCE":
            break
        out["second"].append(c_)
        if c_ == "EOF":
            break
    ctl.hit = base_hit
    ctl.fail_names = set()
    out["fired"] = list(ctl.fired)
    if "EOF" not in out["second"]:
        out["follow"] = (await raw.cmd("PWD"))[0]
        quiet, line = await raw.silence(3)
        out["extra"] = None if quiet else repr(line)
    _d, out["data_eof"] = await harness.read_all(dr, 3)
    raw.close()
    dw.close()
    await asyncio.wait_for(server.close(), 1000)
    return out


def judge_afterabort(case, out):
    first, second, op, nth = case
    if out.get("skipped") or not out["fired"]:
        return
    detail = dict(aborted=first, then=second, failing=op, nth=nth, **out)
    r = out["second"]
    if "EOF" in r:
        raise Violation(f"C13/afterabort/{second}/session_closed", detail)
    if r not in (["150", "451"], ["451"]):
        raise Violation(f"C13/afterabort/{second}/reply_sequence_" + "+".join(r or ["none"]), detail)
    if out["follow"] != "257" or out["extra"] is not None:
        raise Violation(f"C13/afterabort/{second}/session_unusable_afterwards", detail)
    if r[0] == "150" and out["data_eof"] is False:
        raise Violation(f"C13/afterabort/{second}/data_connection_left_open", detail)


def afterabort_cases(tier):
    return [(f, s_, op, nth) for f in ("RETR", "STOR", "LIST", "NONE", None) for s_, (line, ops) in SECOND.items() for op in ops
            for nth in ((1, 2) if op in ("read", "write", "list.next", "stat") else (1,))]


def part_afterabort(ctx):
    for case in afterabort_cases(ctx.tier)[ctx.shard::ctx.nshards]:
        out = simnet.run(lambda loop: _afterabort(loop, *case))
        nt = bool(out["fired"]) and case[0] in ("RETR", "STOR", "LIST") and not out.get("skipped")
        ctx.count(("afterabort",) + case, nt, sample=dict(aborted=case[0], then=case[1], failing=case[2], nth=case[3], first=out["first"],
                                                          replies=out["second"], follow=out["follow"]),
                  classes=["afterabort_first_" + str(case[0]), "afterabort_second_" + case[1], "fired" if out["fired"] else "not_reached"]
                  + (["skipped"] if out.get("skipped") else []))
        try:
            judge_afterabort(case, out)
        except Violation as v:
            ctx.fail(v.sig, dict(kind="afterabort", case=list(case)), v.detail)


def replay_afterabort(case):
    c = tuple(case["case"])
    judge_afterabort(c, simnet.run(lambda loop: _afterabort(loop, *c)))


def pipelined_cases(tier):
    out = []
    for bi, batch in enumerate(BATCHES):
        dry = simnet.run(lambda loop: _pipelined(loop, bi, 0, "oserror", 0))
        for k in range(1, dry["calls"] + 1):
            for split in ((0, 3) if tier == "quick" else (0, 1, 3, 5, 8)):
                out.append((bi, k, EXC_ROTATION[k % len(EXC_ROTATION)] if k % 2 else "oserror", split))
    return out


_BASE = {}


def part_pipelined(ctx):
    for case in pipelined_cases(ctx.tier)[ctx.shard::ctx.nshards]:
        bi = case[0]
        if bi not in _BASE:
            _BASE[bi] = simnet.run(lambda loop: _pipelined(loop, bi, 0, "oserror", 0))["replies"]
        out = simnet.run(lambda loop: _pipelined(loop, *case))
        ctx.count(case, bool(out["fired"]), sample=dict(batch=out["batch"], failing_backend_call=case[1], exception=case[2], replies=out["replies"]),
                  classes=["batch_%d" % bi, "fired" if out["fired"] else "not_reached"])
        try:
            judge_pipelined(case, out, _BASE[bi])
        except Violation as v:
            ctx.fail(v.sig, dict(kind="pipelined", case=list(case)), v.detail)


def replay_pipelined(case):
    c_ = tuple(case["case"])
    base = simnet.run(lambda loop: _pipelined(loop, c_[0], 0, "oserror", 0))["replies"]
    judge_pipelined(c_, simnet.run(lambda loop: _pipelined(loop, *c_)), base)


def plan(tier):
    return [("enumerate", 16), ("tapes", 8), ("pipelined", 4), ("abortfault", 4), ("afterabort", 8)]

"""C08 - file and directory names mean the same thing in every command and reply."""

import asyncio
import pathlib

from hypothesis import strategies as st

from vlib import harness, simnet
from vlib.ftpmodel import DIR
from vlib.harness import HOST, PORT, aioftp
from vlib.runner import Violation, hyp_run

PROPERTY = "C08"
LEVEL = "exploration"
RULE = ("Hypothesis draws two names (concatenations of protocol metacharacters - quote, doubled quote, space runs, ';', "
        "'=', 'Type=dir;', ' -> ', leading '-', digits, '250 ', '250-', backslash, '%s', '%', combining marks, astral code "
        "points, U+0085, U+2028, control characters - and free Unicode; no '/', NUL, CR, LF, no trailing whitespace, not "
        "'.'/'..', <= 200 UTF-8 bytes), a parent directory at depth 0-2, a backend (memory / PathIO) and a server "
        "flavour (MLSD or LIST-only); server and client share an encoding (utf-8, or latin-1 / cp1251 / koi8-r / cp1252 "
        "when it can carry both names). The real aioftp.Client on simnet performs, for a directory named N and a file "
        "named N: make_directory, change_directory, get_current_directory, list of the parent, stat, upload_stream + "
        "download_stream, rename to N2 and back, recursive list, remove. Oracle: the backend tree (read directly) "
        "contains exactly the object under exactly the name after each step, PWD returns exactly parent/N, the listing "
        "contains N exactly once, bytes round-trip, the final tree equals the initial one. Non-trivial = the name "
        "contains a protocol metacharacter; distinct by name pair.")
ASSUMPTIONS = [
    "names with leading whitespace are excluded against LIST-only servers (the year-less ls column format cannot carry "
    "them: known limitation F12, documented in DESIGN.md) but included against MLSD servers",
    "PathIO backend: names limited to 255 UTF-8 bytes by the filesystem",
]
REPLAY_ATTEMPTS = 2

SPECIAL = ['é', 'ü£', 'ж', '"', '""', ' ', '  ', ';', '=', 'Type=dir;', ' -> ', '-', '250 ', '250-', '\\', '%s', '%', '́', '\U0001F600',
           '\x85', ' ', "'", '*', '?', '[', ':', '~', '#', '\t', '\x7f', '\x01', 'size=3;', 'x', 'é', '1', '{}', ' ', '-rf', '-la x', '-a', '-l', '--', '-1']
NAME = st.lists(st.one_of(st.sampled_from(SPECIAL),
                          st.text(alphabet=st.characters(blacklist_characters='/\x00\r\n', blacklist_categories=("Cs",)),
                                  min_size=1, max_size=3)), min_size=1, max_size=5).map("".join).filter(
    lambda s: s not in (".", "..") and not s[-1].isspace() and len(s.encode()) < 200)
CASE = st.tuples(NAME, NAME, st.sampled_from(["/", "/p", "/p/q"]), st.sampled_from(["mem", "mem", "fs"]), st.booleans(),
                 st.lists(st.integers(0, 255), max_size=10))
META = set('";= ->\\%*?[:~#\t\x7f\x01\x85  \'') | set("0123456789")


def glob_decoys(name):
    """Sibling names that a pattern reading of `name` (fnmatch/glob) would match although they are different names."""
    import re
    out = set()
    d = re.sub(r"\[!?([^\]])[^\]]*\]", lambda m: m.group(1) if not m.group(0).startswith("[!") else "q", name)
    if d != name:
        out.add(d)
    if "*" in name:
        out.add(name.replace("*", "zz"))
        out.add(name.replace("*", ""))
    if "?" in name:
        out.add(name.replace("?", "q"))
    return sorted(x for x in out if x and x != name)


def trigger(name):
    t = []
    if '"' in name:
        t.append("quote")
    if name[0].isspace():
        t.append("leading_space")
    return "+".join(t) or "other"


ENCODINGS = ["utf-8", "utf-8", "latin-1", "cp1251", "koi8-r", "cp1252"]


def encoding_for(name, name2, tape):
    """Server and client configured with the same (documented) `encoding`; only codecs that can carry both names."""
    enc = ENCODINGS[(len(tape) + len(name)) % len(ENCODINGS)]
    try:
        (name + name2).encode(enc)
    except UnicodeEncodeError:
        enc = "utf-8"
    return enc


async def _run(loop, case, tmp, out):
    name, name2, parent, backend, listonly, tape = case
    users = [aioftp.User(base_path=tmp)] if backend != "mem" else [aioftp.User()]
    enc = encoding_for(name, name2, tape)
    server = aioftp.Server(users, path_io_factory=harness.BACKENDS[backend], encoding=enc)
    if listonly:
        server.commands_mapping.pop("mlsd")
        server.commands_mapping.pop("mlst")
    await server.start(HOST, PORT)

    def tree():
        return harness.mem_tree(server) if backend == "mem" else harness.fs_tree(tmp)

    c = aioftp.Client(path_io_factory=aioftp.MemoryPathIO, encoding=enc)
    await c.connect(HOST, PORT)
    await c.login()
    P = pathlib.PurePosixPath
    base = parent.rstrip("/")
    try:
        if parent != "/":
            await c.make_directory(parent)
        await c.change_directory(parent)
        # decoy siblings: names a careless glob / pattern interpretation of N would also match
        decoys = []
        for cand in glob_decoys(name):
            if cand not in (name, name2, ".", "..") and "/" not in cand and cand.strip() == cand and cand:
                await c.make_directory(P(cand))
                async with c.upload_stream(P(cand) / "decoy-file") as s_:
                    await s_.write(b"decoy")
                decoys.append(cand)
        out.append("decoys=%d" % len(decoys))
        initial = tree()

        async def step(label, coro, check):
            try:
                res = await coro
                ok = check(res)
                sym = "wrong_result"
            except Exception as e:  # noqa
                res = repr(e)
                ok = False
                sym = "raised_" + type(e).__name__
            out.append(label)
            if not ok:
                raise Violation(f"C08/{label}/{sym}/{trigger(name if 'rename' not in label else name + name2)}",
                                dict(name=name, name2=name2, parent=parent, backend=backend, listonly=listonly,
                                     step=label, result=str(res)[:300]))

        full = base + "/" + name
        for kind in ("dir", "file"):
            if kind == "dir":
                await step("mkd", c.make_directory(P(name)), lambda r: tree().get(full) == DIR)
                await step("cwd", c.change_directory(P(name)), lambda r: True)
                await step("pwd", c.get_current_directory(), lambda r: str(r) == full)
                await c.change_directory(parent)
                target_file = P(name) / "f"
                stored = full + "/f"
            else:
                target_file = P(name)
                stored = full

            async def up():
                async with c.upload_stream(target_file) as s:
                    await s.write(b"data-" + kind.encode())

            await step(f"stor_{kind}", up(), lambda r: tree().get(stored) == b"data-" + kind.encode())

            async def down():
                async with c.download_stream(target_file) as s:
                    return await s.read()

            await step(f"retr_{kind}", down(), lambda r: r == b"data-" + kind.encode())
            await step(f"list_{kind}", c.list(),
                       lambda r: [str(p) for p, i in r if i["type"] == kind].count(name) == 1 and len(r) == 1 + len(decoys)
                       and sorted(str(p) for p, i in r) == sorted([name] + decoys))
            await step(f"stat_{kind}", c.stat(P(name)), lambda r: r["type"] == kind)
            await step(f"exists_{kind}", c.exists(P(name)), lambda r: r is True)
            if name2 != name:
                await step(f"rename_{kind}", c.rename(P(name), P(name2)),
                           lambda r: (base + "/" + name2) in tree() and full not in tree())
                await step(f"rename_back_{kind}", c.rename(P(name2), P(name)),
                           lambda r: full in tree() and (base + "/" + name2) not in tree())
            if kind == "dir":
                await step("listrec", c.list(P(name), recursive=True), lambda r: [str(p) for p, i in r] == [name + "/f"])
                await step("abs_stat", c.stat(P(full)), lambda r: r["type"] == "dir")
            await step(f"remove_{kind}", c.remove(P(name)), lambda r: tree() == initial)
    finally:
        c.close()
        await asyncio.wait_for(server.close(), 1000)


def check(ctx, case):
    name, name2, parent, backend, listonly, tape = case
    steps = []
    if listonly and (name[0].isspace() or name2[0].isspace()):
        ctx.excluded["leading whitespace name on LIST-only server (F12, inherent to the ls format)"] += 1
        ctx.evaluations += 1
        return
    try:
        with harness.TempDirs() as td:
            tmp = td.new() if backend != "mem" else None
            simnet.run(lambda loop: _run(loop, case, tmp, steps), tape)
    finally:
        nt = bool(set(name) & META) or any(ord(ch) > 127 for ch in name)
        ctx.count([name, name2, parent, backend, listonly], nt,
                  sample=dict(name=name, name2=name2, parent=parent, backend=backend, list_only_server=listonly, steps=len(steps)),
                  classes=["be_" + backend, "listonly" if listonly else "mlsd", "trigger_" + trigger(name), "encoding_" + encoding_for(name, name2, tape)]
                  + (["non_ascii"] if any(ord(ch) > 127 for ch in name) else []))


def part_names(ctx):
    n = 200 if ctx.tier == "quick" else 4000
    hyp_run(ctx, CASE, lambda c: check(ctx, c), n, name="names")


def replay_names(case):
    from vlib.runner import Ctx
    check(Ctx(PROPERTY, "names", "quick", 0, 0, 1), tuple(case))


def plan(tier):
    return [("names", 16)]

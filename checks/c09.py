"""C09 - client tree operations (upload, download, recursive list, remove) are faithful."""

import asyncio
import collections
import pathlib

from hypothesis import strategies as st

from vlib import harness, simnet
from vlib.ftpmodel import DIR
from vlib.harness import HOST, PORT, aioftp
from vlib.runner import Violation, hyp_run

PROPERTY = "C09"
LEVEL = "exploration"
RULE = ("Hypothesis draws a tree (depth <= 4, fan-out <= 4, empty directories, empty files, same names on different "
        "levels), a destination ('', one component, several components, absolute), write_into, a client working "
        "directory (/, /r, /r/sub), a block size, a server flavour (MLSD or LIST-only) and the operation (upload of a "
        "directory, upload of a single file, download, recursive list, recursive remove next to untouched siblings). The real "
        "aioftp.Client (MemoryPathIO or a temp directory on the client side) runs against the real server on simnet. "
        "Oracle: placement function from the documentation (root = cwd/dest if write_into else cwd/dest/src.name; "
        "result = initial + ancestors(root) + copy(src -> root), nothing else, same bytes), multiset of listed paths, "
        "final tree = initial minus the subtree. Non-trivial = directory source with depth >= 2 and a destination with "
        ">= 1 component, or an empty sub-directory, or cwd != '/'; distinct by hash of the case. "
        "upload_conflict: an entry of the other kind is placed on the server where the local tree has a directory / file: raises or faithful.")
ASSUMPTIONS = [
    "client-side trees live in a MemoryPathIO (or a temp dir with PathIO in 1/4 of the cases); server on MemoryPathIO",
]
REPLAY_ATTEMPTS = 2

LEAF = st.binary(max_size=9)
NAMEPOOL = ["a", "b", "c", "x", "a"]


def tree_strategy(depth):
    if depth == 0:
        return st.dictionaries(st.sampled_from(NAMEPOOL), LEAF, max_size=3)
    return st.dictionaries(st.sampled_from(NAMEPOOL), st.one_of(LEAF, LEAF, tree_strategy(depth - 1)), max_size=4)


TREE = tree_strategy(3)
CASE = st.tuples(st.sampled_from(["upload_dir", "upload_dir", "upload_file", "download", "download", "listrec", "remove", "download_here", "upload_twice",
                                  "upload_conflict"]),
                 TREE, st.sampled_from(["", "d", "d1/d2", "/abs/d", "src", "../up"]), st.booleans(),
                 st.sampled_from(["/", "/r", "/r/sub"]), st.sampled_from([1, 3, 8192]), st.booleans(), st.booleans(),
                 st.booleans(), st.one_of(st.just(0), st.integers(1, 10 ** 6)))


def expand_tape(n):
    """The drawn integer n > 0 stands for a whole network schedule (a pure function of n): long enough to still decide
    latencies and segment sizes when the transfers start, after the login traffic."""
    import random
    r = random.Random(n)
    return [r.randrange(7) for _ in range(3000)]


def flat(t, root):
    out = {root: DIR}
    for k, v in t.items():
        p = root.rstrip("/") + "/" + k
        if isinstance(v, dict):
            out.update(flat(v, p))
        else:
            out[p] = v
    return out


def depth_of(t):
    return 1 + max([depth_of(v) for v in t.values() if isinstance(v, dict)] or [0])


def has_empty_dir(t):
    return any(isinstance(v, dict) and (not v or has_empty_dir(v)) for v in t.values())


def norm(p):
    """Lexical resolution of '..' on the server side (going up stops at the root)."""
    out = []
    for part in pathlib.PurePosixPath(p).parts[1:]:
        if part == "..":
            del out[-1:]
        else:
            out.append(part)
    return pathlib.PurePosixPath("/", *out)


def ancestors(p):
    out = {}
    q = pathlib.PurePosixPath(p)
    for a in q.parents:
        out[str(a)] = DIR
    return out


async def put(pio, t, root):
    for p, v in sorted(flat(t, root).items()):
        pp = pathlib.PurePosixPath(p)
        if v == DIR:
            await pio.mkdir(pp, parents=True, exist_ok=True)
        else:
            async with pio.open(pp, "wb") as f:
                await f.write(v)


def mem_fs_tree(fs):
    out = {}

    def walk(nodes, prefix):
        for n in nodes:
            p = "/" if n.name == "/" else prefix.rstrip("/") + "/" + n.name
            if n.type == "dir":
                out[p] = DIR
                walk(n.content, p)
            else:
                out[p] = n.content.getvalue()

    walk(fs, "")
    return out


async def _run(loop, case, info):
    op, t, dest, write_into, cwd, block, listonly, abs_spelling, relsrc, *seg = case
    if op == "upload_file" and write_into and dest == "":
        dest = "renamed"  # write_into with an empty destination names no file: not a meaningful call
    if ".." in dest and op not in ("upload_dir", "upload_file", "upload_twice", "upload_conflict"):
        dest = "d"  # (a '..' in a *local* destination is the client file system's business)
    server = aioftp.Server(path_io_factory=aioftp.MemoryPathIO)
    if listonly:
        server.commands_mapping.pop("mlsd")
        server.commands_mapping.pop("mlst")
    await server.start(HOST, PORT)
    spio = server.path_io_factory(timeout=None, connection=None)
    await put(spio, {"keep": b"k", "kd": {}, "sub": {}}, "/r")
    await put(spio, {"keepfile": b"zz"}, "/r/other")
    c = aioftp.Client(path_io_factory=aioftp.MemoryPathIO)
    await c.connect(HOST, PORT)
    await c.login()
    await c.change_directory(cwd)
    P = pathlib.PurePosixPath

    async def guarded(opname, coro):
        try:
            return await coro
        except Violation:
            raise
        except Exception as e:  # noqa: the operation is valid, so any exception is a failure of the operation
            raise Violation(f"C09/{opname}/raised_{type(e).__name__}", dict(error=repr(e)[:300], dest=dest, cwd=cwd,
                                                                           write_into=write_into))

    def sdiff(got, exp):
        return dict(missing={k: v for k, v in exp.items() if got.get(k) != v},
                    unexpected={k: v for k, v in got.items() if exp.get(k) != v})

    try:
        if op in ("upload_dir", "upload_file"):
            # local source lives on the client's MemoryPathIO
            if op == "upload_dir":
                await put(c.path_io, t, "/local/src")
                src = P("/local/src")
            else:
                await c.path_io.mkdir(P("/local"), parents=True, exist_ok=True)
                async with c.path_io.open(P("/local/src"), "wb") as f:
                    await f.write(b"single file")
                src = P("/local/src")
            before = harness.mem_tree(server)
            await guarded(op, c.upload(src, dest, write_into=write_into, block_size=block))
            after = harness.mem_tree(server)
            root = P(cwd) / dest
            if not write_into:
                root = root / src.name
            root = str(norm(root))
            exp = dict(before)
            exp.update(ancestors(root))
            if op == "upload_dir":
                exp.update(flat(t, root))
            else:
                exp[root] = b"single file"
            if after != exp:
                d = sdiff(after, exp)
                kind = "misplaced" if d["missing"] and d["unexpected"] else ("missing" if d["missing"] else "unexpected")
                raise Violation(f"C09/{op}/{kind}/write_into={write_into}/dest_parts={min(len(P(dest).parts), 2)}",
                                dict(dest=dest, write_into=write_into, cwd=cwd, root=root, **d))
        elif op == "upload_conflict":
            # something of the other kind is already in the way on the server (a file where the local tree has a directory,
            # a directory where it has a file): the upload is refused (raises) or the result is faithful - never a
            # normal return with a different tree
            await put(c.path_io, t, "/local/src")
            src = P("/local/src")
            root = P(cwd) / dest
            if not write_into:
                root = root / src.name
            root = str(norm(root))
            want = flat(t, root)
            existing = harness.mem_tree(server)
            cands = sorted(k for k in want if k != "/" and k not in existing) or [root.rstrip("/") + "/lonely"]
            want.setdefault(cands[0], DIR) if cands == [root.rstrip("/") + "/lonely"] else None
            if cands == [root.rstrip("/") + "/lonely"]:
                await c.path_io.mkdir(P("/local/src/lonely"), parents=True, exist_ok=True)
            victim = cands[(block + len(cwd) + len(t)) % len(cands)]
            await spio.mkdir(P(victim).parent, parents=True, exist_ok=True)
            if want[victim] == DIR:
                async with spio.open(P(victim), "wb") as f:
                    await f.write(b"i am a file")
            else:
                await spio.mkdir(P(victim))
            info["conflict"] = "file_in_place_of_dir" if want[victim] == DIR else "dir_in_place_of_file"
            info["conflict_empty_dir"] = want[victim] == DIR and not any(k.startswith(victim + "/") for k in want)
            before = harness.mem_tree(server)
            try:
                await c.upload(src, dest, write_into=write_into, block_size=block)
                refused = False
            except Exception as e:  # noqa: a refusal is a legitimate outcome here
                refused = True
                info["refused"] = type(e).__name__
            if not refused:
                after = harness.mem_tree(server)
                exp = dict(before)
                exp.update(ancestors(root))
                exp.update(want)
                if after != exp:
                    d = sdiff(after, exp)
                    raise Violation(f"C09/upload_conflict/returned_normally_but_tree_differs/{info['conflict']}",
                                    dict(dest=dest, write_into=write_into, cwd=cwd, root=root, in_the_way=victim, **d))
        elif op == "upload_twice":
            # state kept by the client between operations: the same relative destination from two working directories
            if dest.startswith("/"):
                dest = dest.lstrip("/")
            await put(c.path_io, t, "/local/src")
            src = P("/local/src")
            before = harness.mem_tree(server)
            exp = dict(before)
            other = "/r/sub" if cwd != "/r/sub" else "/r"
            for where in (cwd, other):
                await c.change_directory(where)
                await guarded(op, c.upload(src, dest, write_into=write_into, block_size=block))
                root = P(where) / dest
                if not write_into:
                    root = root / src.name
                root = norm(root)
                exp.update(ancestors(str(root)))
                exp.update(flat(t, str(root)))
            after = harness.mem_tree(server)
            if after != exp:
                d = sdiff(after, exp)
                kind = "misplaced" if d["missing"] and d["unexpected"] else ("missing" if d["missing"] else "unexpected")
                raise Violation(f"C09/upload_twice/{kind}/write_into={write_into}", dict(dest=dest, write_into=write_into, cwd=cwd, **d))
        elif op == "download":
            await put(spio, t, "/r/src")
            target = "/r/src"
            if not abs_spelling and target.startswith(cwd.rstrip("/") + "/"):
                target = target[len(cwd.rstrip("/")) + 1:]
            before = mem_fs_tree(c.path_io.fs)
            await guarded(op, c.download(target, dest, write_into=write_into, block_size=block))
            after = mem_fs_tree(c.path_io.fs)
            droot = P("/") / dest
            if not write_into:
                droot = droot / "src"
            exp = dict(before)
            exp.update(ancestors(str(droot)))
            exp.update(flat(t, str(droot)))
            if after != exp:
                d = sdiff(after, exp)
                kind = "misplaced" if d["missing"] and d["unexpected"] else ("missing" if d["missing"] else "unexpected")
                raise Violation(f"C09/download/{kind}/write_into={write_into}", dict(dest=dest, target=target, cwd=cwd, **d))
        elif op == "download_here":
            # the source is the working directory itself ('' or '.') or the server root ('/'): "download everything here"
            await put(spio, t, "/r/src")
            target = ["", ".", "/"][(2 if abs_spelling and relsrc else (1 if abs_spelling else 0))]
            if target == "/":
                exp_src = {k: v for k, v in harness.mem_tree(server).items()}
            else:
                await c.change_directory("/r/src")
                exp_src = flat(t, "/")
            before = mem_fs_tree(c.path_io.fs)
            await guarded(op, c.download(target, dest, write_into=write_into, block_size=block))
            after = mem_fs_tree(c.path_io.fs)
            droot = P("/") / dest  # a source without a name adds no component, with or without write_into
            exp = dict(before)
            exp.update(ancestors(str(droot)))
            exp.update({(str(droot).rstrip("/") + k) if k != "/" else str(droot): v for k, v in exp_src.items()})
            if after != exp:
                d = sdiff(after, exp)
                kind = "misplaced" if d["missing"] and d["unexpected"] else ("missing" if d["missing"] else "unexpected")
                raise Violation(f"C09/download_here/{kind}/write_into={write_into}", dict(dest=dest, target=target, cwd=cwd, **d))
        elif op == "listrec":
            await put(spio, t, "/r/src")
            target = "/r/src"
            if not abs_spelling and target.startswith(cwd.rstrip("/") + "/"):
                target = target[len(cwd.rstrip("/")) + 1:]
            res = await guarded(op, c.list(target, recursive=True))
            got = collections.Counter(str(p) for p, i in res)
            full = flat(t, "/r/src")
            exp = collections.Counter(target.rstrip("/") + k[len("/r/src"):] for k in full if k != "/r/src")
            types = {str(p): i["type"] for p, i in res}
            if got != exp:
                raise Violation("C09/listrec/" + ("duplicate" if any(v > 1 for v in got.values()) else "wrong_set"),
                                dict(target=target, cwd=cwd, extra=dict(got - exp), missing=dict(exp - got)))
            for k, v in full.items():
                if k == "/r/src":
                    continue
                key = target.rstrip("/") + k[len("/r/src"):]
                if types[key] != ("dir" if v == DIR else "file"):
                    raise Violation("C09/listrec/wrong_type", dict(path=key, got=types[key]))
        else:  # remove
            await put(spio, t, "/r/src")
            target = "/r/src"
            if not abs_spelling and target.startswith(cwd.rstrip("/") + "/"):
                target = target[len(cwd.rstrip("/")) + 1:]
            before = harness.mem_tree(server)
            await guarded(op, c.remove(target))
            after = harness.mem_tree(server)
            exp = {k: v for k, v in before.items() if not (k == "/r/src" or k.startswith("/r/src/"))}
            if after != exp:
                raise Violation("C09/remove/" + ("left_behind" if set(after) - set(exp) else "removed_too_much"),
                                dict(target=target, cwd=cwd, **sdiff(after, exp)))
    finally:
        c.close()
        await asyncio.wait_for(server.close(), 1000)


def check(ctx, case):
    op, t, dest, write_into, cwd, block, listonly, abs_spelling, relsrc, *seg = case
    info = {}
    try:
        # network schedule: an empty tape means zero latency and whole segments; otherwise files and listings arrive in
        # pieces spread over (virtual) time, so that a read returns less than a large block size.  Only against servers
        # with MLSD: on a LIST-only server a drawn schedule runs into the observation recorded in DESIGN.md section 6
        # (unused data connection left by the refused MLSD), which is not decided yet.
        simnet.run(lambda loop: _run(loop, case, info), tape=simnet.Tape(expand_tape(seg[0])) if seg and seg[0] and not listonly else None)
    finally:
        nt = (depth_of(t) >= 2 and len(pathlib.PurePosixPath(dest).parts) >= 1) or has_empty_dir(t) or cwd != "/"
        ctx.count(case, nt, sample=dict(op=op, tree=t, dest=dest, write_into=write_into, cwd=cwd, block=block, list_only_server=listonly),
                  classes=["op_" + op, "listonly" if listonly else "mlsd", "wi_%s" % write_into, "cwd_" + cwd,
                           "depth_%d" % depth_of(t)] + (["empty_dir"] if has_empty_dir(t) else []) + (["network_schedule_drawn"] if seg and seg[0] and not listonly else [])
                  + (["conflict_" + info["conflict"], "conflict_refused" if info.get("refused") else "conflict_accepted"] if info.get("conflict") else [])
                  + (["conflict_at_empty_dir"] if info.get("conflict_empty_dir") else []))


def part_trees(ctx):
    n = 250 if ctx.tier == "quick" else 6000
    hyp_run(ctx, CASE, lambda c: check(ctx, c), n, name="trees")


def replay_trees(case):
    from vlib.runner import Ctx
    check(Ctx(PROPERTY, "trees", "quick", 0, 0, 1), tuple(case))


def plan(tier):
    return [("trees", 16)]

"""C19 - malformed input from the peer is contained on both sides."""

import asyncio
import collections
import os
import pathlib
import re
import subprocess
import sys
import tempfile

from hypothesis import strategies as st

from vlib import harness, simnet
from vlib.ftpmodel import DIR
from vlib.harness import HOST, PORT, Raw, aioftp, ledger
from vlib.runner import VERIF, Violation, hyp_run
from vlib.scripts import CORPUS, ScriptRunner, render

PROPERTY = "C19"
LEVEL = "exploration"
RULE = ("parsers: Hypothesis mutations (delete/insert/flip/duplicate/truncate, 0-4 edits) of valid unix, windows and MLSx "
        "listing lines, 227/229/257 payloads and ls dates, plus raw bytes up to 64 KiB, into the real parse_list_line, "
        "parse_list_line_unix/_windows, parse_mlsx_line, parse_ls_date, parse_unix_mode, parse_pasv/epsv/directory_response "
        "and parse_response; contract: listing-line entry points return (PurePosixPath, dict) or raise ValueError, the "
        "others return a well-typed value or raise an Exception subclass. fuzz: the same oracles under atheris "
        "(coverage-guided, libFuzzer) from seed corpora of valid lines and from an empty corpus. server: a scripted fake "
        "server on simnet answers the real client with generated reply streams (wrong codes, mismatched continuation "
        "codes, garbage 227/229/257, early EOF, listings with mutated lines and '.'/'..' entries) and finally closes every "
        "socket; each client call (connect, login, list plain/recursive, stat, download, upload, pwd) must return or "
        "raise an Exception in bounded virtual time; LIST-mode listings must report every non-dot line or raise; a "
        "recursive listing of a finite tree with dot entries in every directory issues exactly one listing per "
        "directory. client: generated hostile control input (valid verbs with mutated arguments, undecodable bytes, "
        "lines beyond the 64 KiB stream limit, bare CR/LF, NULs, premature EOF) against the real server while a "
        "neighbour session runs; the server keeps serving fresh sessions, the neighbour's transcript equals its solo "
        "transcript, and the hostile session's resources are released (C12 ledger). Non-trivial = input not accepted by "
        "the happy-path grammar; distinct by hash of the input.")
ASSUMPTIONS = [
    "the fake server always closes its sockets in the end (a silent peer is C16's subject, not a hang of the client)",
    "an MLSD line without a type fact makes Client.list raise KeyError: an ordinary exception to the caller, not counted as a violation",
]
REPLAY_ATTEMPTS = 2

GOOD_UNIX = [b"-rw-r--r-- 1 none none 12 Jan  5 10:20 file.txt", b"drwxr-xr-x 2 none none 4096 Feb 29 12:00 dir",
             b"lrwxrwxrwx 1 u g 4 Mar  1  2020 link -> target/", b"drwxr-xr-x 2 none none 0 Jan  1  2020 .",
             b"drwxr-xr-x 2 none none 0 Jan  1  2020 ..", b"-rwsr-sr-t 10 a b 1099511627776 Dec 31 23:59 big name with spaces"]
GOOD_WIN = [b"01/02/2020  10:20 AM    <DIR>          adir", b"11/30/2021  03:05 PM             1,234 a file.txt"]
GOOD_MLSX = [b"Type=file;Size=5;Modify=20200101000000; f", b"type=dir;modify=20200101000000; d", b"Type=cdir; .",
             b"Type=pdir; ..", b"Size=3; notype", b"Type=file;Size=1;Modify=20200101000000;  lead", b"Type=file; a;b=c"]
GOOD_OTHER = [b"227 entering (127,0,0,1,31,144)", b"229 ok (|||8080|)", b'257 "/a ""q"" b" created', b"Jan  5 10:20", b"Feb 29  2020",
              b"rwxr-xr-x", b"Feb 29 12:00"]
EDIT = st.tuples(st.sampled_from(["del", "ins", "flip", "dup", "trunc"]), st.integers(0, 200), st.integers(0, 255))
MUTATED = st.tuples(st.sampled_from(GOOD_UNIX + GOOD_WIN + GOOD_MLSX + GOOD_OTHER), st.lists(EDIT, max_size=4))
RAWBYTES = st.one_of(st.binary(max_size=80), st.binary(max_size=80), st.binary(max_size=80), st.binary(min_size=200, max_size=1500),
                     st.builds(lambda b, n: b * n, st.binary(min_size=1, max_size=8), st.sampled_from([1, 3, 40, 500, 8200])))
INPUT = st.one_of(MUTATED.map(lambda t: mutate(*t)), MUTATED.map(lambda t: mutate(*t)), MUTATED.map(lambda t: mutate(*t)), RAWBYTES)


def mutate(line, edits):
    b = bytearray(line)
    for op, pos, val in edits:
        if not b:
            break
        i = pos % len(b)
        if op == "del":
            del b[i]
        elif op == "ins":
            alpha = b" -:/;=M0\xff\x00drwx\"()|,"
            b.insert(i, alpha[val % len(alpha)])
        elif op == "flip":
            b[i] = val
        elif op == "dup":
            b[i:i] = b[i:i + 1 + val % 5]
        elif op == "trunc":
            del b[i:]
    return bytes(b).replace(b"\n", b"").replace(b"\r", b"")


def make_client():
    return aioftp.Client(path_io_factory=aioftp.MemoryPathIO)


_client = None


def client():
    global _client
    if _client is None:
        _client = make_client()
    return _client


def _lexical_dot(name):
    """'.' / '..' after dropping empty and '.' segments (plain lexical rule: './.', './/', './..' name the dot entries too)."""
    segs = [x for x in name.split("/") if x not in ("", ".")]
    return (segs == [] and not name.startswith("/")) or segs == [".."]


def independent_names(raw, fmt):
    """Readings of the name column of a listing line by plain column splitting (independent of aioftp's parsers), under
    both column conventions (columns separated by spaces only / by any whitespace) and both end-of-line trimmings.
    One item per reading that recognises the line shape: the name, or None when that reading finds no name column
    (such a line carries no entry)."""
    s = raw.decode("utf-8", "replace")
    out = []
    if fmt == "mlsx":
        facts, sep, name = s.rstrip("\r\n").partition(" ")
        if sep and name.strip():
            out += [name, name.strip()]
        else:
            out.append(None)
        return out
    for splitter in (lambda t, n: t.split(None, n), lambda t, n: re.split(" +", t.strip(" "), n)):
        for t in (s.rstrip(), s.rstrip("\r\n")):
            f = splitter(t, 8)
            if len(f) >= 1 and len(f[0]) >= 10 and f[0][0] in "-dlbcps":
                name = f[8] if len(f) == 9 else ""
                if f[0][0] == "l" and " -> " in name:
                    name = name.rsplit(" -> ", 1)[0]
                out.append(name.strip() or None)
            w = splitter(t, 4)
            if len(w) >= 3 and w[2].upper() in ("AM", "PM"):
                out.append((w[4].strip() if len(w) == 5 else "") or None)
    return out


def independent_name(raw, fmt):
    n = sorted(x for x in independent_names(raw, fmt) if x)
    return n[0] if n else None


def names_dot_entry(raw, fmt="list"):
    """True unless every independent reading of the line finds a name and none of them is (lexically) a dot entry."""
    ns = independent_names(raw, fmt)
    return not ns or any(n is None or _lexical_dot(n) for n in ns)


def parser_contract(data):
    """Shared by Hypothesis and atheris.  Raises Violation."""
    cl = client()
    for name in ("parse_list_line", "parse_mlsx_line"):
        try:
            r = getattr(cl, name)(data)
        except ValueError:
            continue
        except Exception as e:  # noqa
            raise Violation(f"C19/parsers/{name}/raises_{type(e).__name__}_instead_of_ValueError", dict(input=data, error=repr(e)[:200]))
        if not (isinstance(r, tuple) and len(r) == 2 and isinstance(r[0], pathlib.PurePosixPath) and isinstance(r[1], dict)):
            raise Violation(f"C19/parsers/{name}/ill_typed_result", dict(input=data, result=repr(r)[:200]))
        # Client.list() silently skips entries whose parsed name is '.' or '..': a line that does not name a dot
        # entry must therefore never be parsed as one (it would be dropped instead of reported)
        one_line = b"\n" not in data.rstrip(b"\r\n") and b"\r" not in data.rstrip(b"\r\n")  # else: not a listing *line*
        if one_line and str(r[0]) in (".", "..") and not names_dot_entry(data, "mlsx" if name == "parse_mlsx_line" else "list"):
            raise Violation(f"C19/parsers/{name}/non_dot_line_parsed_as_dot_entry", dict(input=data, result=repr(r)[:200]))
    for name in ("parse_list_line_unix", "parse_list_line_windows"):
        try:
            r = getattr(cl, name)(data)
        except Exception:  # noqa: any ordinary exception is allowed here
            continue
        if not (isinstance(r, tuple) and isinstance(r[0], pathlib.PurePosixPath) and isinstance(r[1], dict)):
            raise Violation(f"C19/parsers/{name}/ill_typed_result", dict(input=data, result=repr(r)[:200]))
    try:
        s = data.decode("utf-8")
    except UnicodeDecodeError:
        s = data.decode("latin-1")
    for name, typ in (("parse_ls_date", str), ("parse_unix_mode", int), ("parse_pasv_response", tuple), ("parse_epsv_response", tuple),
                      ("parse_directory_response", pathlib.PurePosixPath)):
        arg = s
        if name == "parse_pasv_response" and len(s) > 3000:
            # its regex is quadratic in the length of a '('-free line (measured: 64 KiB ~ 10 s): slow, not a hang;
            # noted in DESIGN.md, kept out of the per-case budget here
            arg = s[:3000]
        try:
            r = getattr(aioftp.Client, name)(arg)
        except Exception:  # noqa
            continue
        if not isinstance(r, typ):
            raise Violation(f"C19/parsers/{name}/ill_typed_result", dict(input=data, result=repr(r)[:200]))
        if name in ("parse_pasv_response", "parse_epsv_response") and not isinstance(r[1], int):
            raise Violation(f"C19/parsers/{name}/port_not_int", dict(input=data, result=repr(r)[:200]))


_loop = None


def plain_loop():
    global _loop
    if _loop is None:
        _loop = asyncio.new_event_loop()
        asyncio.set_event_loop(_loop)
    return _loop


def response_contract(data):
    async def go():
        reader = asyncio.StreamReader(limit=2 ** 16)
        cl = make_client()
        cl.stream = aioftp.ThrottleStreamIO(reader, None)
        cl.stream.close = lambda: None
        reader.feed_data(data)
        reader.feed_eof()
        out = []
        for _ in range(6):
            try:
                code, info = await asyncio.wait_for(cl.parse_response(), 5)
            except asyncio.TimeoutError:
                raise Violation("C19/parsers/parse_response/hangs_on_finite_input", dict(input=data))
            except Exception as e:  # noqa
                out.append(type(e).__name__)
                break
            if not (isinstance(code, str) and isinstance(info, list) and all(isinstance(x, str) for x in info)):
                raise Violation("C19/parsers/parse_response/ill_typed_result", dict(input=data, result=repr((code, info))[:200]))
            out.append(str(code))
        return out

    return plain_loop().run_until_complete(go())


class _Watchdog:
    """A pure-Python infinite loop in a parser cannot be seen from inside: interrupt it with SIGALRM."""

    def __init__(self, seconds, data):
        self.seconds, self.data = seconds, data

    def _fire(self, *a):
        raise Violation("C19/parsers/call_does_not_return_within_%ds" % self.seconds, dict(input=self.data))

    def __enter__(self):
        import signal
        self.old = signal.signal(signal.SIGALRM, self._fire)
        signal.setitimer(signal.ITIMER_REAL, self.seconds)

    def __exit__(self, *a):
        import signal
        signal.setitimer(signal.ITIMER_REAL, 0)
        signal.signal(signal.SIGALRM, self.old)


def check_parsers(ctx, data):
    with _Watchdog(30, data):
        parser_contract(data)
        response_contract(data.replace(b"\x00", b"\r\n"))
    good = data in GOOD_UNIX + GOOD_WIN + GOOD_MLSX + GOOD_OTHER
    ctx.count(data, not good, sample=dict(input=data[:120]), classes=["len_%s" % ("small" if len(data) < 200 else "large")])


def part_parsers(ctx):
    n = 1500 if ctx.tier == "quick" else 60000
    hyp_run(ctx, INPUT, lambda d: check_parsers(ctx, d), n, name="parsers")


def replay_parsers(case):
    from vlib.runner import Ctx
    check_parsers(Ctx(PROPERTY, "parsers", "quick", 0, 0, 1), case)


# ---------------------------------------------------------------- atheris
FUZZ_TARGET = r'''
import sys, os
sys.path.insert(0, os.environ["VERIF_DIR"]); sys.path.insert(0, os.environ["AIOFTP_SRC"]); sys.path.append(os.path.join(os.environ["VERIF_DIR"], ".deps"))
import atheris
with atheris.instrument_imports(include=["aioftp"]):
    import aioftp
from checks import c19
from vlib.runner import Violation, dumps
count = [0]
def one(data):
    count[0] += 1
    if count[0] % 2000 == 0:
        open(os.environ["FUZZ_COUNT"], "w").write(str(count[0]))
    try:
        c19.parser_contract(data)
        if len(data) < 400:
            c19.response_contract(data)
    except Violation as v:
        open(os.environ["FUZZ_FAIL"], "w").write(dumps(dict(sig=v.sig, input=data, detail=v.detail)))
        raise
atheris.Setup(sys.argv, one)
atheris.Fuzz()
'''


def part_fuzz(ctx):
    runs = 15000 if ctx.tier == "quick" else 600000
    d = tempfile.mkdtemp(prefix="aioftp_fuzz_")
    try:
        corpus = os.path.join(d, "corpus")
        os.mkdir(corpus)
        seeded = ctx.shard % 2 == 0
        if seeded:
            for i, line in enumerate(GOOD_UNIX + GOOD_WIN + GOOD_MLSX + GOOD_OTHER):
                open(os.path.join(corpus, "seed%d" % i), "wb").write(line)
        target = os.path.join(d, "target.py")
        open(target, "w").write(FUZZ_TARGET)
        env = dict(os.environ, VERIF_DIR=VERIF, FUZZ_COUNT=os.path.join(d, "count"), FUZZ_FAIL=os.path.join(d, "fail"),
                   AIOFTP_SRC=os.environ.get("AIOFTP_SRC", "/repo/src"))
        seed = 1 + (ctx.seed * 31 + ctx.shard) % 100000
        r = subprocess.run([sys.executable, target, corpus, f"-runs={runs}", f"-seed={seed}", "-max_len=600", "-timeout=30", f"-artifact_prefix={d}/",
                            "-print_final_stats=1"], env=env, capture_output=True, text=True, timeout=3000)
        done = runs
        for ln in r.stderr.splitlines():
            if ln.startswith("stat::number_of_executed_units:"):
                done = int(ln.split(":")[-1])
        cov = [ln for ln in r.stderr.splitlines() if " cov: " in ln]
        ctx.evaluations += done
        ctx.extra["atheris_execs"] = done
        ctx.classes["seeded_corpus" if seeded else "empty_corpus"] += 1
        if cov:
            try:
                ctx.extra["edges_last"] = int(cov[-1].split(" cov: ")[1].split()[0])
            except Exception:  # noqa
                pass
        # corpus entries the fuzzer kept are by construction distinct and coverage-increasing
        kept = [f for f in os.listdir(corpus) if not f.startswith("seed")]
        for f in kept[:4000]:
            ctx.nontrivial.add("fuzz:" + f[:16])
        for f in kept[:2]:
            ctx.samples.append(dict(atheris_corpus_entry=open(os.path.join(corpus, f), "rb").read()[:100]))
        timeouts = [f for f in os.listdir(d) if f.startswith("timeout-")]
        if timeouts:
            data = open(os.path.join(d, timeouts[0]), "rb").read()
            ctx.fail("C19/fuzz/call_does_not_return_within_30s", data, dict(input=data))
        elif os.path.exists(env["FUZZ_FAIL"]):
            from vlib.runner import loads
            fail = loads(open(env["FUZZ_FAIL"]).read())
            ctx.fail(fail["sig"], fail["input"], fail["detail"])
        elif r.returncode != 0:
            ctx.harness_errors.append("atheris exited with %d: %s" % (r.returncode, r.stderr[-600:]))
    finally:
        import shutil
        shutil.rmtree(d, ignore_errors=True)


def replay_fuzz(case):
    parser_contract(case)
    if len(case) < 400:
        response_contract(case)


# ---------------------------------------------------------------- hostile server
REPLY_MENU = ["good", "good", "good", "wrong_code", "mismatch", "garbage", "close", "multi_good", "empty", "huge_code"]
SRV_CASE = st.tuples(
    st.lists(st.sampled_from(REPLY_MENU), min_size=8, max_size=8),  # behaviour per verb class
    st.lists(MUTATED.map(lambda t: mutate(*t)), max_size=7),  # listing payload lines (unix/win/mlsx mixed by mode)
    st.sampled_from(["list", "mlsd"]), st.sampled_from(["list", "list_rec", "stat", "download", "upload", "pwd", "list_raw"]),
    st.sampled_from([b"227 ok (127,0,0,1,11,215)", b"227 (1,2,3)", b"227 no parens", b"229 ok (|||3030|)", b"229 (|||x|)", b"229 ((|||3030|)",
                     b"227 (127,0,0,1,999,999)", b"229 ok (|||99999999|)"]),
    st.sampled_from([b'257 "/a"', b'257 no quotes', b'257 "unterminated', b'257 ""', b'257 "/a""b"""']),
    st.integers(0, 3))
VERB_CLASS = {"USER": 0, "PASS": 0, "TYPE": 1, "EPSV": 2, "PASV": 2, "MLSD": 3, "LIST": 3, "MLST": 4, "RETR": 5, "STOR": 5, "PWD": 6, "REST": 7,
              "QUIT": 7, "CWD": 7}


async def _hostile_server(loop, case, result):
    behaviours, lines, mode, call, pasv_payload, pwd_payload, early = case
    if mode == "list":
        lines = [ln for ln in lines]
    payload = b"".join(ln + b"\r\n" for ln in lines)
    stats = collections.Counter()
    data_conns = []

    async def data_handler(r, w):
        data_conns.append(w)
        w.write(payload if stats["STOR"] == 0 else b"")
        w.close()

    dsrv = await asyncio.start_server(data_handler, HOST, 3030)
    dsrv2 = await asyncio.start_server(data_handler, HOST, 11 * 256 + 215)
    ctrl_writers = []

    def reply_for(cmd, good):
        b = behaviours[VERB_CLASS.get(cmd, 7)]
        if early and stats["total"] >= 3 + early * 2:
            return None
        if b == "good":
            return good
        if b == "wrong_code":
            return b"599 weird\r\n"
        if b == "mismatch":
            return good[:3] + b"-first\r\n" + b"123 other code\r\n"
        if b == "garbage":
            return b"\xff\xfe\x00garbage without code\r\n"
        if b == "close":
            return None
        if b == "multi_good":
            return good[:3] + b"-line one\r\n" + good[:3] + b"-\r\n more\r\n" + good
        if b == "empty":
            return b"\r\n"
        return b"9999999 x\r\n"

    async def ctl(r, w):
        ctrl_writers.append(w)
        w.write(b"220 hi\r\n")
        try:
            while True:
                try:
                    line = await asyncio.wait_for(r.readline(), 5)
                except asyncio.TimeoutError:
                    break  # the fake server never stays silent for ever: it hangs up (a silent peer is C16's subject)
                if not line:
                    break
                cmd = line.decode("latin-1").split(" ")[0].strip().upper()
                stats[cmd] += 1
                stats["total"] += 1
                if stats["total"] > 60:
                    break
                good = {"USER": b"230 ok\r\n", "PASS": b"230 ok\r\n", "TYPE": b"200 ok\r\n", "EPSV": pasv_payload + b"\r\n" if pasv_payload.startswith(b"229") else b"500 no epsv\r\n",
                        "PASV": pasv_payload + b"\r\n" if pasv_payload.startswith(b"227") else b"500 no pasv\r\n",
                        "PWD": pwd_payload + b"\r\n", "MLST": b"250-start\r\n " + (lines[0] if lines else b"Type=file; x") + b"\r\n250 end\r\n",
                        "REST": b"350 ok\r\n", "QUIT": b"221 bye\r\n", "CWD": b"250 ok\r\n"}.get(cmd)
                if cmd == "MLSD" and mode == "list":
                    good = b"502 no mlsd\r\n"
                elif cmd in ("MLSD", "LIST", "RETR", "STOR"):
                    good = b"150 go\r\n"
                if good is None:
                    good = b"500 ?\r\n"
                rep = reply_for(cmd, good)
                if rep is None:
                    break
                w.write(rep)
                if good == b"150 go\r\n" and rep.endswith(good):
                    await asyncio.sleep(0.05)
                    w.write(b"226 done\r\n")
                if cmd == "QUIT":
                    break
        finally:
            w.close()
            for dw in data_conns:
                dw.close()

    srv = await asyncio.start_server(ctl, HOST, PORT)
    c = make_client()
    outcome = None

    async def do_call():
        await c.connect(HOST, PORT)
        await c.login()
        if call == "list":
            return ("list", await c.list("/x"))
        if call == "list_raw":
            return ("list", await c.list("/x", raw_command="LIST" if mode == "list" else "MLSD"))
        if call == "list_rec":
            return ("list", await c.list("/x", recursive=True))
        if call == "stat":
            return ("stat", await c.stat("/x/y"))
        if call == "pwd":
            return ("pwd", await c.get_current_directory())
        if call == "download":
            async with c.download_stream("/x/f") as s:
                return ("bytes", await s.read())
        async with c.upload_stream("/x/f") as s:
            await s.write(b"data")
        return ("none", None)

    try:
        try:
            outcome = ("ok", await asyncio.wait_for(do_call(), 1e6))
        except asyncio.TimeoutError:
            outcome = ("hang", None)
        except Exception as e:  # noqa
            outcome = ("exc", type(e).__name__)
        except BaseException as e:  # noqa
            outcome = ("base", type(e).__name__)
    finally:
        c.close()
        srv.close()
        dsrv.close()
        dsrv2.close()
        for w in ctrl_writers:
            w.close()
    result["outcome"] = outcome
    result["stats"] = dict(stats)
    return outcome


def check_server(ctx, case):
    behaviours, lines, mode, call, pasv_payload, pwd_payload, early = case
    result = {}
    outcome = simnet.run(lambda loop: _hostile_server(loop, case, result))
    all_good = all(b == "good" for b in behaviours) and not early
    ctx.count(case, not all_good or any(ln not in GOOD_UNIX + GOOD_WIN + GOOD_MLSX for ln in lines),
              sample=dict(behaviours=behaviours, call=call, mode=mode, lines=[ln[:60] for ln in lines[:4]], outcome=[outcome[0], str(outcome[1])[:80]]),
              classes=["call_" + call, "mode_" + mode, "outcome_" + outcome[0] + ("_" + outcome[1] if outcome[0] == "exc" else "")])
    detail = dict(behaviours=behaviours, lines=lines, mode=mode, call=call, pasv=pasv_payload, pwd=pwd_payload, early=early,
                  outcome=[outcome[0], repr(outcome[1])[:300]], stats=result.get("stats"))
    if outcome[0] == "hang":
        raise Violation(f"C19/server/{call}/client_hangs_although_server_closed_everything", detail)
    if outcome[0] == "base":
        raise Violation(f"C19/server/{call}/raises_{outcome[1]}_not_an_ordinary_exception", detail)
    if outcome[0] == "ok":
        kind, val = outcome[1]
        if kind == "list":
            if not (isinstance(val, list) and all(isinstance(p, pathlib.PurePosixPath) and isinstance(i, dict) for p, i in val)):
                raise Violation(f"C19/server/{call}/ill_typed_listing", detail)
            if mode == "list" and call in ("list", "list_raw"):
                cl = make_client()
                expected = 0
                for ln in lines:
                    try:
                        p, i = cl.parse_list_line(ln + b"\r\n")
                    except ValueError:
                        expected = None
                        break
                    if not names_dot_entry(ln):
                        expected += 1
                    elif str(p) not in (".", ".."):
                        expected += 1  # the parser found a name where plain column splitting saw none: it is reported
                if expected is None:
                    raise Violation(f"C19/server/{call}/unparsable_line_dropped_silently", detail)
                if len(val) != expected and len(lines) > 0 and result["stats"].get("LIST", 0) == 1:
                    # an empty first line ends the listing early in aioftp's readline loop only at EOF
                    raise Violation(f"C19/server/{call}/listing_count_mismatch", dict(detail, got=len(val), expected=expected))
        elif kind == "stat" and not isinstance(val, dict):
            raise Violation(f"C19/server/{call}/ill_typed_stat", detail)
        elif kind == "pwd" and not isinstance(val, pathlib.PurePosixPath):
            raise Violation(f"C19/server/{call}/ill_typed_pwd", detail)
        elif kind == "bytes" and not isinstance(val, bytes):
            raise Violation(f"C19/server/{call}/ill_typed_download", detail)


def part_server(ctx):
    n = 500 if ctx.tier == "quick" else 5000
    hyp_run(ctx, SRV_CASE, lambda c: check_server(ctx, c), n, name="server")


def replay_server(case):
    from vlib.runner import Ctx
    check_server(Ctx(PROPERTY, "server", "quick", 0, 0, 1), tuple(case))


# ---------------------------------------------------------------- recursive listing over a tree with dot entries
TREES = st.recursive(st.just({}), lambda ch: st.dictionaries(st.sampled_from(["a", "b", "c"]), ch, max_size=3), max_leaves=8)


async def _dots(loop, tree, mode, result):
    listings = collections.Counter()
    pending = asyncio.Queue()  # the client opens the data connection before it sends the listing command

    def lookup(path):
        node = tree
        for part in [p for p in path.split("/") if p]:
            node = node.get(part)
            if node is None:
                return None
        return node

    async def data_handler(r, w):
        try:
            path = await asyncio.wait_for(pending.get(), 5)
        except asyncio.TimeoutError:
            w.close()
            return
        if path is None:
            w.close()
            return
        node = lookup(path) or {}
        if mode == "mlsd":
            out = [b"Type=cdir; .", b"Type=pdir; .."] + [b"Type=dir; " + k.encode() for k in sorted(node)] + [b"Type=file;Size=1; file"]
        else:
            out = [b"drwxr-xr-x 2 n n 0 Jan  1  2020 .", b"drwxr-xr-x 2 n n 0 Jan  1  2020 .."] + \
                  [b"drwxr-xr-x 2 n n 0 Jan  1  2020 " + k.encode() for k in sorted(node)] + [b"-rw-r--r-- 1 n n 1 Jan  1  2020 file"]
        w.write(b"".join(x + b"\r\n" for x in out))
        w.close()

    dsrv = await asyncio.start_server(data_handler, HOST, 3030)

    async def ctl(r, w):
        w.write(b"220 hi\r\n")
        while True:
            line = await r.readline()
            if not line:
                break
            s = line.decode().rstrip()
            cmd, _, arg = s.partition(" ")
            cmd = cmd.upper()
            if cmd in ("MLSD", "LIST"):
                if cmd == "MLSD" and mode == "list":
                    pending.put_nowait(None)  # releases the data connection the client opened for this refused MLSD
                    w.write(b"502 no\r\n")
                    continue
                listings[arg or "/"] += 1
                if sum(listings.values()) > 200:
                    break
                pending.put_nowait(arg or "/")
                w.write(b"150 go\r\n")
                await asyncio.sleep(0.02)
                w.write(b"226 done\r\n")
            else:
                w.write({"USER": b"230 ok\r\n", "TYPE": b"200 ok\r\n", "EPSV": b"229 ok (|||3030|)\r\n", "QUIT": b"221 bye\r\n"}.get(cmd, b"500 ?\r\n"))
        w.close()

    srv = await asyncio.start_server(ctl, HOST, PORT)
    c = make_client()
    await c.connect(HOST, PORT)
    await c.login()
    try:
        res = await asyncio.wait_for(c.list("/", recursive=True), 1e6)
    finally:
        c.close()
        srv.close()
        dsrv.close()
    result["listings"] = dict(listings)
    return res


def count_dirs(tree):
    return 1 + sum(count_dirs(v) for v in tree.values())


def check_dots(ctx, case):
    tree, mode = case
    result = {}
    try:
        res = simnet.run(lambda loop: _dots(loop, tree, mode, result))
    except asyncio.TimeoutError:
        raise Violation("C19/dots/recursive_listing_never_ends", dict(tree=tree, mode=mode))
    except Violation:
        raise
    except Exception as e:  # noqa: this fake server is well-behaved, so the client has no reason to fail
        raise Violation(f"C19/dots/listing_of_a_finite_tree_fails_{type(e).__name__}", dict(tree=tree, mode=mode, error=repr(e)[:200]))
    ndirs = count_dirs(tree)
    ctx.count(case, ndirs > 1, sample=dict(tree=tree, mode=mode, listings=result.get("listings")), classes=["mode_" + mode, "dirs_%d" % min(ndirs, 6)])
    if any(v != 1 for v in result["listings"].values()) or len(result["listings"]) != ndirs:
        raise Violation("C19/dots/not_one_listing_per_directory", dict(tree=tree, mode=mode, listings=result["listings"], directories=ndirs))
    if any(p.name in (".", "..") for p, i in res):
        raise Violation("C19/dots/dot_entry_reported", dict(tree=tree, mode=mode))
    if len(res) != (ndirs - 1) + ndirs:
        raise Violation("C19/dots/entries_lost_or_invented", dict(tree=tree, mode=mode, got=len(res), expected=2 * ndirs - 1))


def part_dots(ctx):
    n = 120 if ctx.tier == "quick" else 1000
    hyp_run(ctx, st.tuples(TREES, st.sampled_from(["mlsd", "list"])), lambda c: check_dots(ctx, c), n, name="dots")


def replay_dots(case):
    from vlib.runner import Ctx
    check_dots(Ctx(PROPERTY, "dots", "quick", 0, 0, 1), tuple(case))


# ---------------------------------------------------------------- hostile client
VERBS = ["USER", "PASS", "CWD", "MKD", "RMD", "DELE", "RNFR", "RNTO", "LIST", "MLSD", "MLST", "STOR", "APPE", "RETR", "REST", "TYPE", "PROT",
         "EPSV", "PASV", "ABOR", "PBSZ", "SYST", "PWD", "CDUP", "QUIT", "NOOP", "XYZZY"]
ARG = st.one_of(st.binary(max_size=30), st.sampled_from([b"", b"/", b"..", b"/../..", b"\xff\xfe", b"a" * 70000, b"\x00", b"\r", b"%s%n", b"-1",
                                                         b"99999999999999999999", b"\xc3", b"a\x00b", b" " * 10, b"anonymous"]))
CHUNK = st.one_of(
    st.tuples(st.sampled_from(VERBS), ARG).map(lambda t: t[0].encode() + (b" " + t[1] if t[1] else b"") + b"\r\n"),
    st.tuples(st.sampled_from(VERBS), ARG).map(lambda t: t[0].lower().encode() + b" " + t[1] + b"\n"),
    st.binary(min_size=1, max_size=40), st.just(b"\r\n"), st.just(b"\n\n\n"), st.just(b"USER anonymous\r\n"),
    st.sampled_from([b"USER alice\r\n", b"PASS secret\r\n", b"PASS x\r\n", b"USER alice\r\nUSER \xff\r\n", b"USER alice\r\nUSER alice\r\n",
                     b"USER alice\r\nUSER nobody\x00\r\n"]),
    st.just(b"USER anonymous\r\nEPSV\r\nLIST\r\n"), st.just(b"x" * 66000), st.just(b"\xff" * 100 + b"\r\n"))
CLI_CASE = st.tuples(st.lists(CHUNK, min_size=1, max_size=12), st.booleans(), st.lists(st.integers(0, 255), max_size=20))

_SOLO_NB = {}


def _norm(transcript):
    import re
    out = []
    for rec in transcript:
        d = rec.get("data")
        if d is not None:
            d = re.sub(rb"(Modify|Create)=\d+;", b"", d)
            d = re.sub(rb"[A-Z][a-z]{2} [ \d]\d (\d\d:\d\d| \d{4})", b"<date>", d)
        out.append((rec.get("line"), tuple(rec["codes"]), d))
    return out


def solo_neighbour():
    if "x" not in _SOLO_NB:
        async def go(loop):
            server = aioftp.Server(path_io_factory=aioftp.MemoryPathIO, wait_future_timeout=2)
            await server.start(HOST, PORT)
            nb = ScriptRunner(render(CORPUS["tour"], "/n"))
            await nb.run()
            nb.close()
            await server.close()
            return _norm(nb.transcript)

        _SOLO_NB["x"] = simnet.run(go)
    return _SOLO_NB["x"]


async def _hostile_client(loop, chunks, fin, result):
    users = [aioftp.User(maximum_connections=4), aioftp.User("alice", "secret", maximum_connections=3)]
    server = aioftp.Server(users, path_io_factory=aioftp.MemoryPathIO, wait_future_timeout=2, idle_timeout=None, maximum_connections=6)
    await server.start(HOST, PORT)
    nb = ScriptRunner(render(CORPUS["tour"], "/n"))
    nbt = asyncio.ensure_future(nb.run())
    r, w = await asyncio.open_connection(HOST, PORT)
    got = bytearray()

    async def drain_replies():
        try:
            while True:
                b = await r.read(65536)
                if not b:
                    return
                got.extend(b)
        except (ConnectionError, OSError):
            return

    dt = asyncio.ensure_future(drain_replies())
    for ch in chunks:
        w.write(ch)
        await asyncio.sleep(0.05)
        if w.is_closing():
            break
    await asyncio.sleep(3)
    w.close()
    await asyncio.wait([nbt, dt], timeout=5000)
    nb.close()
    await asyncio.sleep(1.0)
    leaks = ledger(loop, server, PORT)
    # connection slots are resources of the session too
    if server.available_connections.value != 6:
        leaks["server_connection_slots"] = server.available_connections.value
    for u in users:
        v = server.user_manager.available_connections[u].value
        if v != u.maximum_connections:
            leaks["user_connection_slots_" + (u.login or "anonymous")] = v
    # the server must still serve a fresh session
    fresh = Raw(HOST, PORT, patience=20)
    codes = [(await fresh.connect())[0], (await fresh.cmd("USER anonymous"))[0], (await fresh.cmd("PWD"))[0]]
    fresh.close()
    await asyncio.wait_for(server.close(), 1000)
    result.update(leaks=leaks, fresh=codes, neighbour=_norm(nb.transcript), replies=bytes(got[:300]))


def check_client(ctx, case):
    chunks, fin, tape = case
    result = {}
    simnet.run(lambda loop: _hostile_client(loop, chunks, fin, result), tape)
    ctx.count(case, True, sample=dict(chunks=[c_[:50] for c_ in chunks[:6]], replies=result["replies"][:120]),
              classes=["oversized" if any(len(c_) > 65536 for c_ in chunks) else "normal_size", "undecodable" if any(b"\xff" in c_ for c_ in chunks) else "decodable"])
    detail = dict(chunks=[c_[:80] for c_ in chunks], leaks=result["leaks"], fresh=result["fresh"])
    if result["fresh"] != ["220", "230", "257"]:
        raise Violation("C19/client/server_stops_serving", detail)
    if result["leaks"]:
        raise Violation("C19/client/hostile_session_resources_not_released/" + "+".join(sorted(result["leaks"])), detail)
    if not tape and result["neighbour"] != solo_neighbour():
        diff = [(a, b) for a, b in zip(result["neighbour"], solo_neighbour()) if a != b][:2]
        raise Violation("C19/client/neighbour_disturbed", dict(detail, diff=diff))


def part_client(ctx):
    n = 300 if ctx.tier == "quick" else 3000
    hyp_run(ctx, CLI_CASE, lambda c: check_client(ctx, c), n, name="client")


def replay_client(case):
    from vlib.runner import Ctx
    check_client(Ctx(PROPERTY, "client", "quick", 0, 0, 1), tuple(case))


def plan(tier):
    return [("parsers", 4), ("server", 6), ("dots", 1), ("client", 3), ("fuzz", 2 if tier == "quick" else 8)]

"""C06 - reply framing round trip (server encoder -> segmenter -> client decoder), rejection of
mismatched continuation codes, exhaustive Code.matches, parse_command round trip."""

import asyncio
import itertools
import re

from hypothesis import strategies as st

from vlib.runner import Violation, bootstrap_path, hyp_run

bootstrap_path()
import aioftp  # noqa: E402
from aioftp import errors  # noqa: E402

PROPERTY = "C06"
LEVEL = "exploration"
RULE = ("roundtrip: Hypothesis sequences of 1-6 replies (code 000-999, 1-6 lines each, plain or list mode, "
        "one of 3 encodings) written by the real Server.write_response, cut into generated segments, decoded by "
        "the real Client.parse_response; non-trivial = a reply with >=2 lines, or a line that looks like a reply "
        "header, or a segment boundary inside a line; distinct by hash of (replies, encoding, cuts). "
        "negative: generated good replies around one reply whose last line carries another code. "
        "matches: every (code, mask) pair, masks of length 0-4 over a 15-symbol alphabet (exhaustive). "
        "command: VERB/arg lines through Server.parse_command under generated segmentation.")
ASSUMPTIONS = [
    "lines contain no CR/LF and are compared modulo trailing whitespace (the line protocol rstrip()s every line)",
    "the decoder keeps the one-character separator ('-' or ' ') in front of each info line; the oracle removes it",
    "encodings: utf-8, latin-1, cp1251 (single-byte or ASCII-transparent; '\\n' never occurs inside a character)",
    "mask alphabet excludes non-ASCII characters for which str.isdigit() is true (the property text does not say "
    "whether they count as digits)",
]

ENCODINGS = ["utf-8", "latin-1", "cp1251"]
SPECIAL_LINES = ["", "250-x", "250 x", "-", "- x", " ", "  lead", "123", "12", "1234", "250", "250-", "250 ",
                 "٣٤٥ x", "226 done", "150-", "-250 x", " 250 x", "x" * 70, "a\tb", "tail  ",
                 "éè", "привет", "\x0bx", "x\x0cy"]
HEADER_RE = re.compile(r"^\d{3}([ -]|$)")


def _encodable(s, enc):
    try:
        s.encode(enc)
        return True
    except UnicodeEncodeError:
        return False


def line_strategy(enc):
    if enc == "utf-8":
        alpha = st.characters(blacklist_characters="\r\n", blacklist_categories=("Cs",))
    elif enc == "latin-1":
        alpha = st.characters(min_codepoint=0, max_codepoint=255, blacklist_characters="\r\n")
    else:
        alpha = st.sampled_from([chr(c) for c in range(32, 127)] + list("абвгдЖЯё№«\t\x0b"))
    free = st.text(alphabet=alpha, max_size=14)
    specials = [s for s in SPECIAL_LINES if _encodable(s, enc)]
    digits_led = st.builds(lambda c, sep, t: f"{c:03d}{sep}{t}", st.integers(0, 999), st.sampled_from([" ", "-", ""]), free)
    return st.one_of(free, st.sampled_from(specials), digits_led)


def reply_strategy(enc):
    return st.tuples(st.integers(0, 999), st.lists(line_strategy(enc), min_size=1, max_size=6), st.booleans())


CASE = st.integers(0, len(ENCODINGS) - 1).flatmap(
    lambda e: st.tuples(st.just(e), st.lists(reply_strategy(ENCODINGS[e]), min_size=1, max_size=6),
                        st.lists(st.integers(1, 12), max_size=40)))


class Cap:
    def __init__(self):
        self.buf = bytearray()

    async def write(self, data):
        self.buf += data


_loop = None


def loop():
    global _loop
    if _loop is None:
        _loop = asyncio.new_event_loop()
        asyncio.set_event_loop(_loop)
    return _loop


async def _encode(replies, enc):
    srv = aioftp.Server(encoding=enc)
    cap = Cap()
    norm = []
    for code, lines, lst in replies:
        code = f"{code:03d}"
        if lst and len(lines) < 2:
            lst = False  # list mode needs head and tail (write_response unpacks head, *body, tail)
        await srv.write_response(cap, code, lines if len(lines) > 1 else lines[0], lst)
        norm.append((code, lines, lst))
    return norm, bytes(cap.buf)


async def _decode(data, cuts, enc, n):
    reader = asyncio.StreamReader()
    cl = aioftp.Client(encoding=enc, path_io_factory=aioftp.MemoryPathIO)
    cl.stream = aioftp.ThrottleStreamIO(reader, None)

    async def feed():
        pos = 0
        for c in cuts:
            if pos >= len(data):
                break
            reader.feed_data(data[pos:pos + c])
            pos += c
            await asyncio.sleep(0)
        if pos < len(data):
            reader.feed_data(data[pos:])
        reader.feed_eof()

    ft = asyncio.ensure_future(feed())
    out = []
    for _ in range(n):
        try:
            out.append(await cl.parse_response())
        except errors.StatusCodeError as e:
            out.append(("STATUS", e))
        except Exception as e:  # noqa
            out.append(("EXC", repr(e)))
            break
    await ft
    return out


def strip_sep(info):
    return [(x[1:] if x else "").rstrip() for x in info]


def check_roundtrip(ctx, case):
    e, replies, cuts = case
    enc = ENCODINGS[e]
    lp = loop()
    norm, data = lp.run_until_complete(_encode(replies, enc))
    out = lp.run_until_complete(_decode(data, cuts, enc, len(norm)))
    multi = any(len(l) > 1 for _, l, _ in norm)
    headerish = any(HEADER_RE.match(x) for _, l, _ in norm for x in l)
    split = bool(cuts) and sum(cuts) < len(data) or len(cuts) > 1
    ctx.count(case, multi or headerish or split, sample=dict(encoding=enc, replies=norm, cuts=cuts[:10], wire=data[:200].decode("latin-1")),
              classes=[c for c, f in (("multi", multi), ("headerish", headerish), ("split", split),
                                      ("list_mode", any(s for _, _, s in norm)), ("enc_" + enc, True)) if f])
    for i, ((code, lines, lst), got) in enumerate(zip(norm, out)):
        if got[0] in ("EXC", "STATUS"):
            kind = "status_code_error" if got[0] == "STATUS" else "exception"
            raise Violation(f"C06/roundtrip/{kind}/{'list' if lst else 'plain'}",
                            dict(reply=i, sent=(code, lines, lst), got=repr(got[1]), wire=data))
        gcode, info = got
        if str(gcode) != code:
            raise Violation(f"C06/roundtrip/code_mismatch/{'list' if lst else 'plain'}",
                            dict(reply=i, sent=(code, lines, lst), got=(str(gcode), info), wire=data))
        if strip_sep(info) != [x.rstrip() for x in lines]:
            sym = "line_count" if len(info) != len(lines) else "line_text"
            raise Violation(f"C06/roundtrip/{sym}/{'list' if lst else 'plain'}",
                            dict(reply=i, sent=(code, lines, lst), got=(str(gcode), info), wire=data))
    if len(out) != len(norm):
        raise Violation("C06/roundtrip/missing_reply", dict(sent=norm, got=len(out), wire=data))


def part_roundtrip(ctx):
    n = 800 if ctx.tier == "quick" else 8000
    hyp_run(ctx, CASE, lambda c: check_roundtrip(ctx, c), n, name="roundtrip")


def replay_roundtrip(case):
    from vlib.runner import Ctx
    check_roundtrip(Ctx(PROPERTY, "roundtrip", "quick", 0, 0, 1), case)


# ---------------------------------------------------------------- negative
NEG = st.integers(0, len(ENCODINGS) - 1).flatmap(
    lambda e: st.tuples(
        st.just(e),
        st.lists(reply_strategy(ENCODINGS[e]), max_size=2),
        st.tuples(st.integers(0, 999), st.integers(0, 999), st.lists(line_strategy(ENCODINGS[e]), min_size=1, max_size=4),
                  line_strategy(ENCODINGS[e]), st.integers(0, 9)),
        st.lists(reply_strategy(ENCODINGS[e]), min_size=1, max_size=2),
        st.lists(st.integers(1, 12), max_size=30)))


def check_negative(ctx, case):
    e, before, (c1, c2, body, tail, where), after, cuts = case
    enc = ENCODINGS[e]
    if c1 == c2:
        c2 = (c2 + 1) % 1000
    lp = loop()
    norm_b, data_b = lp.run_until_complete(_encode(before, enc))
    norm_a, data_a = lp.run_until_complete(_encode(after, enc))
    interior = where % 3 == 0 and len(body) >= 2
    if interior:
        # the foreign code sits on an interior continuation line; the reply then returns to its own code
        pos = 1 + where % (len(body) - 1)
        bad = "".join(f"{(c2 if i == pos else c1):03d}-{x}\r\n" for i, x in enumerate(body)) + f"{c1:03d} {tail}\r\n"
        data = data_b + bad.encode(enc) + data_a
        out = lp.run_until_complete(_decode(data, cuts, enc, len(norm_b) + 1 + len(norm_a)))
        ctx.count(case, True, sample=dict(encoding=enc, bad=bad, interior=True), classes=["neg_interior"])
        k = len(norm_b)
        if len(out) <= k or out[k][0] != "STATUS":
            raise Violation("C06/negative/interior_foreign_code_not_rejected", dict(bad=bad, got=repr(out[k] if len(out) > k else None)))
        # the rejected reply ends with its own terminating line: what follows is the next reply, and it is decoded as sent
        rest = out[k + 1:]
        if len(rest) != len(norm_a):
            raise Violation("C06/negative/interior/next_reply_lost", dict(bad=bad, after=norm_a, got=repr(rest)))
        for (code, lines, lst), got in zip(norm_a, rest):
            if got[0] in ("EXC", "STATUS") or str(got[0]) != code or strip_sep(got[1]) != [x.rstrip() for x in lines]:
                raise Violation("C06/negative/interior/next_reply_misread", dict(bad=bad, sent=(code, lines, lst), got=repr(got)))
        return
    bad = "".join(f"{c1:03d}-{x}\r\n" for x in body) + f"{c2:03d} {tail}\r\n"
    data = data_b + bad.encode(enc) + data_a
    out = lp.run_until_complete(_decode(data, cuts, enc, len(norm_b) + 1 + len(norm_a)))
    ctx.count(case, True, sample=dict(encoding=enc, bad=bad, before=norm_b, after=norm_a),
              classes=["neg"])
    k = len(norm_b)
    if len(out) <= k or out[k][0] != "STATUS":
        raise Violation("C06/negative/bad_reply_not_rejected", dict(bad=bad, got=repr(out[k] if len(out) > k else None)))
    rest = out[k + 1:]
    if len(rest) != len(norm_a):
        raise Violation("C06/negative/next_reply_lost", dict(bad=bad, after=norm_a, got=repr(rest)))
    for (code, lines, lst), got in zip(norm_a, rest):
        if got[0] in ("EXC", "STATUS") or str(got[0]) != code or strip_sep(got[1]) != [x.rstrip() for x in lines]:
            raise Violation("C06/negative/next_reply_misread", dict(bad=bad, sent=(code, lines, lst), got=repr(got)))


def part_negative(ctx):
    n = 400 if ctx.tier == "quick" else 3000
    hyp_run(ctx, NEG, lambda c: check_negative(ctx, c), n, name="negative")


def replay_negative(case):
    from vlib.runner import Ctx
    check_negative(Ctx(PROPERTY, "negative", "quick", 0, 0, 1), case)


# ---------------------------------------------------------------- matches (exhaustive)
MASK_ALPHABET = "0123456789xX*? "  # all ASCII; non-digit = wildcard


def spec_matches(code, mask):
    return all((m not in "0123456789") or m == c for m, c in zip(mask, code))


def part_matches(ctx):
    masks = [""]
    for n in (1, 2, 3, 4):
        if n == 4:
            masks += ["".join(p) + s for p in (("2", "x", "x"), ("2", "2", "6"), ("x", "5", "x")) for s in MASK_ALPHABET]
        else:
            masks += ["".join(p) for p in itertools.product(MASK_ALPHABET, repeat=n)]
    mine = masks[ctx.shard::ctx.nshards]
    codes = [aioftp.Code(f"{n:03d}") for n in range(1000)]
    nt = 0
    for mask in mine:
        for code in codes:
            got = code.matches(mask)
            exp = spec_matches(code, mask)
            if bool(got) != exp:
                ctx.fail("C06/matches/" + ("accepts_disagreeing" if got else "rejects_agreeing"),
                         dict(code=str(code), mask=mask), dict(got=bool(got), expected=exp))
        ctx.evaluations += len(codes)
        if any(ch in "0123456789" for ch in mask):
            nt += len(codes)
            ctx.nontrivial.add(f"mask:{mask}")
    ctx.extra["pairs_with_a_digit_in_mask"] = nt
    ctx.extra["masks"] = len(mine)
    if len(ctx.samples) < 3:
        ctx.samples.append(dict(code="226", mask="2x6", result=bool(aioftp.Code("226").matches("2x6"))))
    ctx.exhaustive = True


def replay_matches(case):
    code, mask = aioftp.Code(case["code"]), case["mask"]
    if bool(code.matches(mask)) != spec_matches(code, mask):
        raise Violation("C06/matches/" + ("accepts_disagreeing" if code.matches(mask) else "rejects_agreeing"), case)


# ---------------------------------------------------------------- parse_command round trip
VERBS = ["ABOR", "APPE", "CDUP", "CWD", "DELE", "EPSV", "LIST", "MKD", "MLSD", "MLST", "PASS", "PASV", "PBSZ",
         "PROT", "PWD", "QUIT", "REST", "RETR", "RMD", "RNFR", "RNTO", "STOR", "SYST", "TYPE", "USER", "NOOP", "FEAT", "X"]


def _case_mix(v, bits):
    return "".join(ch.lower() if (bits >> i) & 1 else ch for i, ch in enumerate(v))


ARG = st.one_of(
    st.just(""),
    st.text(alphabet=st.characters(blacklist_characters="\r\n", blacklist_categories=("Cs",)), max_size=20),
    st.sampled_from([" lead", "a b", "a  b", "\"q\"", "x;y=z", "-l", "250 x", "путь/ф", "a\tb"]),
)
CMD = st.tuples(st.lists(st.tuples(st.sampled_from(VERBS), st.integers(0, 255), ARG, st.sampled_from(["\r\n", "\n"])),
                         min_size=1, max_size=5),
                st.lists(st.integers(1, 9), max_size=30))


def check_command(ctx, case):
    cmds, cuts = case
    srv = aioftp.Server()
    lines = []
    expect = []
    for verb, bits, arg, eol in cmds:
        v = _case_mix(verb, bits)
        arg = arg.rstrip()
        line = v + (" " + arg if arg != "" else "")
        lines.append(line + eol)
        expect.append((verb.lower(), arg))
    data = "".join(lines).encode("utf-8")

    async def go():
        reader = asyncio.StreamReader()
        stream = aioftp.ThrottleStreamIO(reader, None)

        async def feed():
            pos = 0
            for c in cuts:
                if pos >= len(data):
                    break
                reader.feed_data(data[pos:pos + c])
                pos += c
                await asyncio.sleep(0)
            if pos < len(data):
                reader.feed_data(data[pos:])
            reader.feed_eof()

        ft = asyncio.ensure_future(feed())
        out = []
        for _ in expect:
            try:
                out.append(tuple(await srv.parse_command(stream)))
            except Exception as e:  # noqa
                out.append(("EXC", repr(e)))
                break
        await ft
        return out

    out = loop().run_until_complete(go())
    ctx.count(case, any(a for _, _, a, _ in cmds) and len(cuts) > 0, sample=dict(lines=lines, cuts=cuts[:8]), classes=["cmd"])
    if out != expect:
        raise Violation("C06/command/misparsed", dict(lines=lines, expected=expect, got=out))


def part_command(ctx):
    n = 400 if ctx.tier == "quick" else 3000
    hyp_run(ctx, CMD, lambda c: check_command(ctx, c), n, name="command")


def replay_command(case):
    from vlib.runner import Ctx
    check_command(Ctx(PROPERTY, "command", "quick", 0, 0, 1), case)


# ---------------------------------------------------------------- Client.command(): wait / expect loop over reply sequences
MASK = st.text(alphabet="0123456789x", min_size=1, max_size=3)
LOOP = st.tuples(st.lists(st.tuples(st.integers(100, 599), st.integers(1, 3)), min_size=1, max_size=6),
                 st.lists(MASK, max_size=3), st.lists(MASK, max_size=3), st.lists(st.integers(1, 9), max_size=20))


def check_cmdloop(ctx, case):
    replies, expected, wait, cuts = case
    if not expected and not wait:
        expected = ["2xx"]
    lp = loop()
    norm, data = lp.run_until_complete(_encode([(c, ["line %d" % i for i in range(n)], False) for c, n in replies], "utf-8"))

    async def go():
        reader = asyncio.StreamReader()
        cl = aioftp.Client(path_io_factory=aioftp.MemoryPathIO)
        cl.stream = aioftp.ThrottleStreamIO(reader, None)
        cl.stream.close = lambda: None
        pos = 0
        for c_ in cuts:
            reader.feed_data(data[pos:pos + c_])
            pos += c_
        reader.feed_data(data[pos:])
        reader.feed_eof()
        try:
            code, info = await cl.command(None, tuple(expected), tuple(wait))
            left = await reader.read()
            return ("ok", str(code), len(left))
        except errors.StatusCodeError as e:
            left = await reader.read()
            return ("status", str(e.received_codes[-1]), len(left))
        except ConnectionResetError:
            return ("eof", None, 0)

    got = lp.run_until_complete(go())
    # model: skip replies while the code matches any wait mask; the first other reply is the answer
    sizes = []
    pos = 0
    for (code, lines, lst) in norm:
        n = sum(len(("%s-%s\r\n" % (code, x)).encode()) for x in lines)
        sizes.append(n)
    idx = 0
    while idx < len(norm) and any(spec_matches(norm[idx][0], m) for m in wait):
        idx += 1
    if idx >= len(norm):
        exp = ("eof", None, 0)
    else:
        code = norm[idx][0]
        rest = sum(sizes[idx + 1:])
        if not expected or any(spec_matches(code, m) for m in expected):
            exp = ("ok", code, rest)
        else:
            exp = ("status", code, rest)
    ctx.count(case, idx > 0 or exp[0] != "ok", sample=dict(replies=[c for c, _l, _s in norm], expected=expected, wait=wait, outcome=got),
              classes=["outcome_" + got[0], "skipped_%d" % min(idx, 3)])
    if got != exp:
        raise Violation(f"C06/cmdloop/{exp[0]}_expected_got_{got[0]}", dict(replies=[c for c, _l, _s in norm], expected=expected, wait=wait,
                                                                           got=got, model=exp))


def part_cmdloop(ctx):
    n = 400 if ctx.tier == "quick" else 8000
    hyp_run(ctx, LOOP, lambda c: check_cmdloop(ctx, c), n, name="cmdloop")


def replay_cmdloop(case):
    from vlib.runner import Ctx
    check_cmdloop(Ctx(PROPERTY, "cmdloop", "quick", 0, 0, 1), tuple(case))


# ---------------------------------------------------------------- real server, real connected client, long lines
LENGTHS = [0, 1, 79, 1000, 4090, 8185, 8188, 8189, 8190, 8192, 8200, 16384, 20000, 32768, 40000, 60000]


def wire_cases(tier):
    out = []
    for i, n in enumerate(LENGTHS):
        for shape in ("single", "multi_long_middle", "multi_long_last", "list_long_body"):
            for enc in (("utf-8",) if tier == "quick" and i % 3 else ("utf-8", "latin-1")):
                out.append((n, shape, enc, ["250", "257", "211"][i % 3]))
    return out


async def _wire(loop, case):
    from vlib import harness
    n, shape, enc, code = case
    unit = "péth/" if enc == "latin-1" else "naïve ж ☃/"
    long = (unit * (n // len(unit) + 1))[:n]
    while len(long.encode(enc)) > n:  # lengths are byte lengths (asyncio's stream limit of 64 KiB per line is a precondition)
        long = long[:len(long) - max(1, (len(long.encode(enc)) - n) // 3)]
    lines = {"single": [long], "multi_long_middle": ["head", long, "tail"], "multi_long_last": ["head", "2nd", long],
             "list_long_body": ["begin", " " + long, " short body", "end"]}[shape]
    lst = shape == "list_long_body"
    server = aioftp.Server(path_io_factory=aioftp.MemoryPathIO, encoding=enc)

    async def xrep(connection, rest):
        connection.response(code, lines if len(lines) > 1 else lines[0], lst)
        return True

    server.commands_mapping["xrep"] = xrep
    await server.start(harness.HOST, harness.PORT)
    c = aioftp.Client(path_io_factory=aioftp.MemoryPathIO, encoding=enc)
    out = {}
    try:
        await c.connect(harness.HOST, harness.PORT)
        await c.login()
        try:
            got_code, info = await c.command("XREP", code)
            out["first"] = (str(got_code), strip_sep(info))
        except Exception as e:  # noqa
            out["first"] = ("EXC", repr(e)[:200])
        try:
            got_code, info = await c.command("PWD", "257")
            out["next"] = (str(got_code), strip_sep(info))
        except Exception as e:  # noqa
            out["next"] = ("EXC", repr(e)[:200])
    finally:
        c.close()
        await asyncio.wait_for(server.close(), 1000)
    out["expected"] = (code, [x.rstrip() for x in lines])
    return out


def judge_wire(case, out):
    n, shape, enc, code = case
    if out["first"] != out["expected"]:
        what = "raised" if out["first"][0] == "EXC" else "decoded_differently"
        raise Violation(f"C06/wire/{what}/{shape}", dict(line_length=n, encoding=enc, code=code, got=(out["first"][0], [x[:60] for x in out["first"][1]] if out["first"][0] != "EXC" else out["first"][1]),
                                                         expected_line_lengths=[len(x) for x in out["expected"][1]]))
    if out["next"][0] != "257":
        raise Violation(f"C06/wire/next_reply_not_decoded/{shape}", dict(line_length=n, encoding=enc, next=out["next"]))


def part_wire(ctx):
    from vlib import simnet
    for case in wire_cases(ctx.tier)[ctx.shard::ctx.nshards]:
        out = simnet.run(lambda loop: _wire(loop, case))
        ctx.count(("wire",) + case, case[0] >= 1000, sample=dict(line_length=case[0], shape=case[1], encoding=case[2], code=case[3],
                                                              decoded_lines=len(out["first"][1]) if out["first"][0] != "EXC" else None),
                  classes=["wire_" + case[1], "wire_len_%d" % case[0]])
        try:
            judge_wire(case, out)
        except Violation as v:
            ctx.fail(v.sig, dict(kind="wire", case=list(case)), v.detail)


def replay_wire(case):
    from vlib import simnet
    c = tuple(case["case"])
    judge_wire(c, simnet.run(lambda loop: _wire(loop, c)))


def plan(tier):
    return [("roundtrip", 8), ("negative", 3), ("command", 2), ("cmdloop", 2), ("matches", 3), ("wire", 4)]

"""C02 - every client-supplied path stays inside the user's base directory."""

import asyncio
import pathlib

from hypothesis import strategies as st

from vlib import harness, simnet
from vlib.ftpmodel import DIR
from vlib.harness import HOST, PORT, Raw, aioftp, instrument, read_all
from vlib.runner import Violation, hyp_run

PROPERTY = "C02"
LEVEL = "exploration"
RULE = ("paths: Hypothesis draws flavour (posix / windows pure paths), base_path (absolute, relative, nested, '.', '/', "
        "drive paths), a working directory and a path string over the segment alphabet {names, '..', '.', '', names with "
        "backslash / colon / drive / UNC / leading dot / tilde}, absolute or relative, optional leading '//' and trailing "
        "'/'; real Server.get_paths vs an independent string resolver: virtual == '/' + '/'.join(stack), "
        "real.parts == base.parts + stack, real lexically inside base with no '..' after the base prefix. "
        "cwdwalk: generated CWD/CDUP histories through get_paths exactly as the handlers use it: cwd stays absolute and "
        "normalised and get_paths('.') is the identity. wire: generated command sequences (all 13 path-taking commands, "
        "arguments from the same alphabet, from generated working directories) against the real server on simnet with a "
        "recording backend whose base directory is nested inside a larger tree holding canary files; every path the "
        "backend is asked about must be lexically inside the base, the canaries must be unchanged, and PWD after each "
        "successful CWD must equal the resolver's answer. Non-trivial = the argument contains a '..' that reaches the "
        "root at some prefix, a leading '//', depth > 2 or a windows-special segment; distinct by hash of the case.")
ASSUMPTIONS = [
    "windows flavour is checked lexically through PureWindowsPath (as the repository's own test does); no real Windows filesystem",
    "known finding (KNOWN_FINDINGS): windows-flavour segments containing a backslash or a drive are re-parsed when joined "
    "to the base (alias: virtual path no longer names the location addressed)",
]
REPLAY_ATTEMPTS = 2

SEG = st.sampled_from(["a", "b", "..", "..", ".", "", "x y", "..a", "a..", "...", "C:", "a\\b", "..\\..\\x", "\\", "c:x", ".hidden", "~",
                       "\\\\srv\\share", "D:", "d:\\w", "..\\", "a/..", "\\windows", "con", "a:b"])
PATH = st.tuples(st.sampled_from(["", "/", "//", "///"]), st.lists(SEG, max_size=7), st.sampled_from(["", "/"])).map(
    lambda t: t[0] + "/".join(t[1]) + t[2])
CWD = st.lists(st.sampled_from(["a", "b", "x y", "C:", "a\\b", ".hidden"]), max_size=4).map(lambda l: "/" + "/".join(l))
BASES = ["/srv/ftp", "rel/base", ".", "/", "C:\\ftp", "C:\\ftp\\u1", "/srv/ftp/../ftp2"]


def oracle(cwd, arg):
    segs = [] if arg.startswith("/") else [s for s in cwd.split("/") if s]
    for s in arg.split("/"):
        if s in ("", "."):
            continue
        if s == "..":
            if segs:
                segs.pop()
        else:
            segs.append(s)
    return segs


def special(seg):
    return "\\" in seg or ":" in seg


def nontrivial_arg(cwd, arg, flavour):
    segs = [] if arg.startswith("/") else [s for s in cwd.split("/") if s]
    hits_root = False
    for s in arg.split("/"):
        if s == "..":
            if not segs:
                hits_root = True
            else:
                segs.pop()
        elif s not in ("", "."):
            segs.append(s)
    return hits_root or arg.startswith("//") or len(segs) > 2 or (flavour == "windows" and any(special(s) for s in arg.split("/")))


def check_paths(ctx, case):
    flavour, base, cwd, arg = case
    if flavour == "posix" and base.startswith("C:"):
        base = "/srv/" + base[3:].replace("\\", "/")
    B = pathlib.PurePosixPath(base) if flavour == "posix" else pathlib.PureWindowsPath(base)
    user = aioftp.User()
    user.base_path = B
    conn = aioftp.Connection(current_directory=pathlib.PurePosixPath(cwd), user=user)
    real, virt = aioftp.Server.get_paths(conn, arg)
    segs = oracle(cwd, arg)
    exp_virt = "/" + "/".join(segs)
    is_special = flavour == "windows" and any(special(s) for s in segs)
    ctx.count(case, nontrivial_arg(cwd, arg, flavour), sample=dict(flavour=flavour, base=base, cwd=cwd, arg=arg, real=str(real), virtual=str(virt)),
              classes=["flavour_" + flavour] + (["windows_special_segment"] if is_special else []) + (["leading_slashes"] if arg.startswith("//") else [])
              + (["dotdot"] if ".." in arg.split("/") else []))
    detail = dict(flavour=flavour, base=base, cwd=cwd, arg=arg, real=str(real), real_parts=list(real.parts), virtual=str(virt), expected_virtual=exp_virt)
    # 1. confinement (the security half of the property); pure-path comparison honours the flavour's case rules
    if not real.is_relative_to(B):
        raise Violation(f"C02/paths/{flavour}/real_path_outside_base", detail)
    tail = real.relative_to(B).parts
    if ".." in tail:
        raise Violation(f"C02/paths/{flavour}/dotdot_survives_after_base_prefix", detail)
    # 2. the reported virtual path is the normalised absolute form of the location addressed
    reset_to_root = str(virt) == "/" and tuple(tail) == ()
    if str(virt) != exp_virt and not (is_special and reset_to_root):
        raise Violation(f"C02/paths/{flavour}/virtual_path_not_normalised_form", detail)
    if tuple(tail) != tuple(str(virt).split("/")[1:] if str(virt) != "/" else ()):
        if is_special:
            raise Violation("C02/paths/windows/alias_backslash_or_drive_segment", detail)
        raise Violation(f"C02/paths/{flavour}/real_path_differs_from_virtual", detail)


def part_paths(ctx):
    n = 3000 if ctx.tier == "quick" else 120000
    strat = st.tuples(st.sampled_from(["posix", "windows"]), st.sampled_from(BASES), CWD, PATH)
    hyp_run(ctx, strat, lambda c: check_paths(ctx, c), n, name="paths")


def replay_paths(case):
    from vlib.runner import Ctx
    check_paths(Ctx(PROPERTY, "paths", "quick", 0, 0, 1), tuple(case))


# ---------------------------------------------------------------- CWD/CDUP histories
def check_cwdwalk(ctx, case):
    flavour, base, steps = case
    if flavour == "posix" and base.startswith("C:"):
        base = "/srv/ftp"
    B = pathlib.PurePosixPath(base) if flavour == "posix" else pathlib.PureWindowsPath(base)
    user = aioftp.User()
    user.base_path = B
    cwd = pathlib.PurePosixPath("/")
    model = "/"
    for i, arg in enumerate(steps):
        conn = aioftp.Connection(current_directory=cwd, user=user)
        if arg is None:  # CDUP passes current_directory.parent
            real, virt = aioftp.Server.get_paths(conn, cwd.parent)
            exp = "/" + "/".join(oracle(model, ".."))
        else:
            real, virt = aioftp.Server.get_paths(conn, arg)
            exp = "/" + "/".join(oracle(model, arg))
        segs = exp.split("/")[1:] if exp != "/" else []
        detail = dict(flavour=flavour, base=base, steps=steps[:i + 1], cwd=str(virt), expected=exp)
        sp = flavour == "windows" and any(special(s) for s in segs)
        if str(virt) != exp and not (sp and str(virt) == "/"):
            raise Violation(f"C02/cwdwalk/{flavour}/cwd_diverges_from_resolver", detail)
        s = str(virt)
        if not s.startswith("/") or "//" in s or "/./" in s + "/" or "/../" in s + "/":
            raise Violation(f"C02/cwdwalk/{flavour}/cwd_not_normalised", detail)
        conn2 = aioftp.Connection(current_directory=virt, user=user)
        real2, virt2 = aioftp.Server.get_paths(conn2, ".")
        if virt2 != virt or (real2 != real and not sp):
            raise Violation(f"C02/cwdwalk/{flavour}/dot_is_not_identity", dict(detail, dot=str(virt2)))
        cwd, model = virt, str(virt)
    ctx.count(case, len(steps) >= 3 and any(a is None or ".." in a for a in steps), sample=dict(flavour=flavour, base=base, steps=steps, final=model),
              classes=["flavour_" + flavour])


def part_cwdwalk(ctx):
    n = 1500 if ctx.tier == "quick" else 40000
    strat = st.tuples(st.sampled_from(["posix", "windows"]), st.sampled_from(BASES), st.lists(st.one_of(st.none(), PATH), min_size=1, max_size=10))
    hyp_run(ctx, strat, lambda c: check_cwdwalk(ctx, c), n, name="cwdwalk")


def replay_cwdwalk(case):
    from vlib.runner import Ctx
    check_cwdwalk(Ctx(PROPERTY, "cwdwalk", "quick", 0, 0, 1), tuple(case))


# ---------------------------------------------------------------- wire level with a recording backend
VERBS = ["CWD", "MKD", "RMD", "DELE", "RNFR", "RNTO", "LIST", "MLSD", "MLST", "STOR", "APPE", "RETR", "CDUP", "CWD", "CWD", "RELOGIN"]
WSEG = st.sampled_from(["a", "b", "..", "..", "..", ".", "", "f", "u2", "jail", "secret", "..a", "x y", "u1"])
WPATH = st.tuples(st.sampled_from(["", "/", "//", ""]), st.lists(WSEG, max_size=6), st.sampled_from(["", "/"])).map(
    lambda t: t[0] + "/".join(t[1]) + t[2])
# per-session state that holds a *real* path (the pending RNFR) meets a change of user: RNFR <existing>, RELOGIN, RNTO
ACROSS = st.tuples(st.just("RNFR>RELOGIN>RNTO"), st.sampled_from(["f", "/f", "/a/f", "/a", "", "a/../f"]))


# ... and a change of working directory: the source stays the location addressed when RNFR was sent
MOVED = st.tuples(st.just("RNFR>CWD>RNTO"), st.sampled_from(["f", "a/f", "./f", "a/../f", "../f", "b/../f"]),
                  st.sampled_from(["a", "/a", "/a/b", "..", "a/b", "/"])).map(lambda t: (t[0], t[1] + "|" + t[2]))


# ... and a rename elsewhere in the tree: the working directory is stored state too. The renamed entry's path is a string
# prefix (not a path prefix) of the working directory, or an ancestor of it; relative arguments afterwards still address
# locations below the directory the session entered
NEARBY = st.tuples(st.just("CWD>RENAME_NEARBY>REL"), st.sampled_from(["/a|/ab/c", "/a|/ab", "/f|/fx", "/a/b|/a/bb/c", "/a|/a/b"]))


def _expand(cmds):
    out = []
    for verb, arg in cmds:
        if verb == "CWD>RENAME_NEARBY>REL":
            victim, _, cwd = arg.partition("|")
            out += [("MKD", cwd), ("CWD", cwd), ("RNFR", victim), ("RNTO", "/renamed"), ("MLST", "f"), ("MKD", "sub"), ("MLST", "."), ("CDUP", "")]
        elif verb == "RNFR>RELOGIN>RNTO":
            out += [("RNFR", arg), ("RELOGIN", ""), ("RNTO", "moved")]
        elif verb == "RNFR>CWD>RNTO":
            src, _, to = arg.partition("|")
            out += [("RNFR", src), ("CWD", to), ("RNTO", "moved2")]
        else:
            out.append((verb, arg))
    return out


WIRE = st.tuples(st.sampled_from(["mem", "fs"]),
                 st.lists(st.one_of(st.tuples(st.sampled_from(VERBS), WPATH), st.tuples(st.sampled_from(VERBS), WPATH), ACROSS, MOVED, NEARBY),
                          min_size=3, max_size=25).map(_expand),
                 # home_path as configured: any absolute spelling ('..' detours, doubled slashes) of a directory in the tree
                 st.sampled_from(["/", "/a", "/a/b", "/a/b/..", "/a/../a/b", "//a", "/a/./b/", "/../a"]))
INSIDE = {"/": DIR, "/a": DIR, "/a/b": DIR, "/a/f": b"inside-file", "/f": b"root-file"}
CANARY = {"u2": DIR, "u2/secret": b"other user's secret", "outside": b"outside the jail"}


async def _wire(loop, backend, cmds, home, tmp, info):
    ctl = harness.Ctl()
    if backend == "mem":
        base = pathlib.Path("/jail/u1")
        jail = "/jail"
    else:
        jail = tmp + "/jail"
        base = pathlib.Path(jail) / "u1"
    fac = instrument(harness.BACKENDS[backend], ctl)
    base2 = base.parent / "u2"  # the second user's base: a sibling that already holds files of the same names
    bases = [base, base2]
    users = [aioftp.User(base_path=base, home_path=home), aioftp.User("bob", "pw", base_path=base2)]
    server = aioftp.Server(users, path_io_factory=fac, wait_future_timeout=1)
    await server.start(HOST, PORT)
    full = {}
    for k, v in INSIDE.items():
        full["/jail/u1" + (k if k != "/" else "")] = v
    for k, v in CANARY.items():
        full["/jail/" + k] = v
    for k, v in INSIDE.items():
        if k != "/":
            full["/jail/u2" + k] = DIR if v == DIR else b"bob's " + v
    full["/jail"] = DIR
    if backend == "mem":
        harness.mem_populate(server, dict(full, **{"/": DIR}))
        whole = lambda: harness.mem_tree(server)  # noqa: E731
    else:
        harness.fs_populate(tmp, full)
        whole = lambda: harness.fs_tree(tmp)  # noqa: E731
    cur = [0]

    def snap():
        mine = "/jail/u1" if cur[0] == 0 else "/jail/u2"
        return {k: v for k, v in whole().items() if not (k == mine or k.startswith(mine + "/"))}

    canary0 = snap()
    raw = Raw(HOST, PORT, patience=20)
    await raw.connect()
    await raw.cmd("USER anonymous")
    _c, _l = await raw.cmd("PWD")
    expected_home = "/" + "/".join(oracle("/", home))
    if _l and _l[-1][4:] != '"%s"' % expected_home:
        raise Violation("C02/wire/pwd_after_login_not_normalised", dict(home_path=home, got=_l[-1][4:], expected=expected_home))
    await raw.cmd("EPSV")
    ctl.log.clear()
    home = "/" + "/".join(oracle("/", home))  # the working directory after login is the resolved form of home_path
    model_cwd = home
    base_parts = base.parts
    rnfr_addr = None
    try:
        for verb, arg in cmds:
            n0 = len(ctl.log)
            if verb == "RELOGIN":
                # the same control connection authenticates as the other user: everything must now resolve inside
                # that user's base directory (the passive listener survives the re-login)
                cur[0] = 1 - cur[0]
                if cur[0] == 1:
                    c1, _ = await raw.cmd("USER bob")
                    c2, _ = await raw.cmd("PASS pw")
                    ok = (c1, c2) == ("331", "230")
                    model_cwd = "/"
                else:
                    c1, _ = await raw.cmd("USER anonymous")
                    ok = c1 == "230"
                    model_cwd = home
                info["steps"].append(("RELOGIN as " + ("bob" if cur[0] else "anonymous"), [c1]))
                if not ok:
                    raise Violation("C02/wire/relogin_refused", dict(steps=info["steps"][-5:]))
                base_parts = bases[cur[0]].parts
                rnfr_addr = None
                canary0 = snap()
                info["relogins"] = info.get("relogins", 0) + 1
                continue
            xfer = verb in ("LIST", "MLSD", "STOR", "APPE", "RETR")
            dsock = None
            if xfer:
                dsock = await raw.open_data()
                await asyncio.sleep(0.1)
            line = verb if verb == "CDUP" else (verb + (" " + arg if arg else ""))
            code, lines = await raw.cmd(line)
            codes = [code]
            if code == "150":
                if verb in ("STOR", "APPE"):
                    dsock[1].write(b"payload")
                    dsock[1].close()
                else:
                    await read_all(dsock[0], 20)
                    dsock[1].close()
                codes.append((await raw.reply())[0])
            elif dsock is not None:
                dsock[1].close()
                await raw.cmd("EPSV")
            info["steps"].append((line, codes))
            if "EOF" in codes:
                raise Violation("C02/wire/session_closed", dict(steps=info["steps"][-5:]))
            # every path the backend was asked about must be inside the base
            for name, p in ctl.log[n0:]:
                if p is None:
                    continue
                for one in p.split(" -> "):
                    pp = pathlib.PurePosixPath(one)
                    parts = pp.parts
                    if parts[:len(base_parts)] != base_parts or ".." in parts:
                        resolved = "/" + "/".join(oracle(model_cwd, arg if verb != "CDUP" else ".."))
                        where = "base_parent" if pp == pathlib.PurePosixPath(*base_parts).parent else "elsewhere"
                        tgt = "virtual_root" if resolved == "/" else "below_root"
                        who = "after_relogin" if info.get("relogins") else "first_login"
                        raise Violation(f"C02/wire/backend_asked_outside_base/{verb}/{name}/{where}/target={tgt}/{who}",
                                        dict(asked=one, op=name, base=str(bases[cur[0]]), cmd=line, cwd=model_cwd, steps=info["steps"][-5:]))
            # removing or renaming the base directory itself changes the directory that contains it
            base_str = str(pathlib.PurePosixPath(*base_parts))
            for name, p in ctl.log[n0:]:
                if p is not None and name in ("rmdir", "unlink", "rename") and p.split(" -> ")[0] == base_str:
                    raise Violation(f"C02/wire/backend_asked_to_remove_the_base_directory_itself/{verb}/{name}",
                                    dict(asked=p, op=name, cmd=line, cwd=model_cwd, steps=info["steps"][-5:]))
            # ... and about the location the command addresses (or an ancestor / descendant of it: parent checks, listed
            # children), resolved when the command arrives; for RNTO also the location addressed by the pending RNFR
            addr = pathlib.PurePosixPath(*base_parts, *oracle(model_cwd, arg if verb != "CDUP" else ".."))
            allowed = [addr] + ([rnfr_addr] if verb == "RNTO" and rnfr_addr is not None else [])
            for name, p in ctl.log[n0:]:
                if p is None:
                    continue
                for one in p.split(" -> "):
                    pp = pathlib.PurePosixPath(one)
                    if not any(pp == a or a in pp.parents or pp in a.parents for a in allowed):
                        raise Violation(f"C02/wire/backend_asked_about_another_location/{verb}/{name}",
                                        dict(asked=one, op=name, addressed=[str(a) for a in allowed], cmd=line, cwd=model_cwd,
                                             steps=info["steps"][-5:]))
            # a refused RNFR / RNTO leaves an earlier pending RNFR in place (the handler body did not run)
            if verb == "RNFR" and code == "350":
                rnfr_addr = addr
            elif verb == "RNTO" and code in ("250", "451"):
                rnfr_addr = None
            if verb in ("CWD", "CDUP") and code == "250":
                model_cwd = "/" + "/".join(oracle(model_cwd, arg if verb == "CWD" else ".."))
                code2, l2 = await raw.cmd("PWD")
                got = l2[-1][4:] if l2 else None
                if got != '"%s"' % model_cwd.replace('"', '""'):
                    raise Violation("C02/wire/pwd_differs_from_resolver", dict(got=got, expected=model_cwd, steps=info["steps"][-5:]))
                info["cwd_changes"] += 1
            if snap() != canary0:
                raise Violation(f"C02/wire/canary_changed/{verb}", dict(cmd=line, steps=info["steps"][-5:]))
    finally:
        raw.close()
        await asyncio.wait_for(server.close(), 1000)


def check_wire(ctx, case):
    backend, cmds, home = case
    info = dict(steps=[], cwd_changes=0)
    try:
        with harness.TempDirs() as td:
            tmp = td.new() if backend != "mem" else None
            simnet.run(lambda loop: _wire(loop, backend, cmds, home, tmp, info))
    finally:
        nt = any(nontrivial_arg("/", a, "posix") for _v, a in cmds)
        ctx.count(case, nt, sample=dict(backend=backend, home=home, steps=info["steps"][:12]),
                  classes=["be_" + backend] + ["verb_" + v for v, _a in cmds] + (["cwd_changed"] if info["cwd_changes"] else [])
                  + (["relogin_as_other_user"] if info.get("relogins") else []))


def part_wire(ctx):
    n = 200 if ctx.tier == "quick" else 2500
    hyp_run(ctx, WIRE, lambda c: check_wire(ctx, c), n, name="wire")


def replay_wire(case):
    from vlib.runner import Ctx
    backend, cmds, home = case
    check_wire(Ctx(PROPERTY, "wire", "quick", 0, 0, 1), (backend, [tuple(c_) for c_ in cmds], home))


# ---------------------------------------------------------------- time of check vs time of use
# A transfer command is resolved, path-checked and permission-checked when it arrives; its worker may start much
# later (when the data connection is made).  Commands sent in between must not change the location it addresses.
WTREE = {"/": DIR, "/pub": DIR, "/pub/docs": DIR, "/pub/docs/a.txt": b"PUBLIC-A", "/pub/b.txt": b"PUBLIC-B", "/vault": DIR,
         "/vault/docs": DIR, "/vault/docs/a.txt": b"SECRET-A", "/vault/b.txt": b"SECRET-B", "/docs": DIR, "/docs/a.txt": b"ROOT-A",
         "/b.txt": b"ROOT-B"}
BOBTREE = {"/": DIR, "/docs": DIR, "/docs/a.txt": b"BOB-A", "/b.txt": b"BOB-B", "/pub": DIR, "/pub/b.txt": b"BOB-PUB-B"}
INTER = st.sampled_from(["CWD /vault", "CWD /pub", "CWD /", "CDUP", "USER bob", "USER anonymous", "PWD", "TYPE I", "MKD /pub/x", "CWD docs",
                         "CWD /vault/docs", "NOOP", "MLST b.txt"])
WINDOW = st.tuples(st.sampled_from(["/", "/pub", "/pub/docs", "/vault"]), st.sampled_from(["RETR", "LIST", "MLSD", "STOR", "APPE"]),
                   st.sampled_from(["docs/a.txt", "b.txt", "a.txt", "docs", ".", "../b.txt", "docs/../b.txt", "/pub/b.txt", "new.bin"]),
                   st.lists(INTER, min_size=1, max_size=3), st.sampled_from(["mem", "fs"]))


async def _window(loop, cwd, verb, arg, inter, backend, tmp):
    if backend == "mem":
        base_g, base_b = pathlib.Path("/jail/guest"), pathlib.Path("/jail/bob")
    else:
        base_g, base_b = pathlib.Path(tmp) / "jail" / "guest", pathlib.Path(tmp) / "jail" / "bob"
    users = [aioftp.User(base_path=base_g, permissions=[aioftp.Permission("/"), aioftp.Permission("/vault", readable=False, writable=False)]),
             aioftp.User("bob", "secret", base_path=base_b)]
    server = aioftp.Server(users, path_io_factory=harness.BACKENDS[backend], wait_future_timeout=5)
    await server.start(HOST, PORT)
    full = {"/jail": DIR}
    for k, v in WTREE.items():
        full["/jail/guest" + (k if k != "/" else "")] = v
    for k, v in BOBTREE.items():
        full["/jail/bob" + (k if k != "/" else "")] = v
    if backend == "mem":
        harness.mem_populate(server, dict(full, **{"/": DIR}))
        snap = lambda: harness.mem_tree(server)  # noqa: E731
    else:
        harness.fs_populate(tmp, full)
        snap = lambda: harness.fs_tree(tmp)  # noqa: E731
    raw = Raw(HOST, PORT, patience=20)
    await raw.connect()
    await raw.cmd("USER anonymous")
    c0, _ = await raw.cmd("CWD " + cwd)
    await raw.cmd("EPSV")
    code, _ = await raw.cmd(verb + " " + arg)
    out = dict(first=code, cwd_code=c0, inter=[])
    if code == "150":
        for line in inter:
            ci, _ = await raw.cmd(line)
            out["inter"].append(ci)
        dr, dw = await raw.open_data()
        if verb in ("STOR", "APPE"):
            dw.write(b"<uploaded>")
            dw.close()
        else:
            data, eof = await read_all(dr, 20)
            dw.close()
            out["data"] = data
        out["second"] = (await raw.reply())[0]
    out["tree"] = snap()
    raw.close()
    await asyncio.wait_for(server.close(), 1000)
    return out


def check_window(ctx, case):
    import re
    cwd, verb, arg, inter, backend = case

    def run(inter_cmds):
        with harness.TempDirs() as td:
            tmp = td.new() if backend != "mem" else None
            return simnet.run(lambda loop: _window(loop, cwd, verb, arg, inter_cmds, backend, tmp))

    with_inter = run(inter)
    ctx.count(case, with_inter["first"] == "150", sample=dict(cwd=cwd, command=verb + " " + arg, sent_before_data_connection=inter,
                                                              replies=[with_inter["first"], with_inter.get("second")], interposed_replies=with_inter["inter"]),
              classes=["verb_" + verb, "accepted" if with_inter["first"] == "150" else "refused_" + with_inter["first"]]
              + ["inter_" + i.split(" ")[0] for i in inter])
    if with_inter["first"] != "150":
        return
    base = run([])

    def norm(d):
        if d is None:
            return None
        d = re.sub(rb"(Modify|Create)=\d+;", b"", d)
        return re.sub(rb"[A-Z][a-z]{2} [ \d]\d (\d\d:\d\d| \d{4})", b"<date>", d)

    detail = dict(cwd=cwd, command=verb + " " + arg, interposed=inter, backend=backend, replies=[with_inter["first"], with_inter.get("second")],
                  baseline_replies=[base["first"], base.get("second")])
    first_inter = inter[0].split(" ")[0]
    if with_inter.get("second") != base.get("second"):
        raise Violation(f"C02/window/{verb}/completion_reply_changed_by_interposed_{first_inter}", detail)
    if verb in ("RETR", "LIST", "MLSD"):
        def listed(d):
            # an interposed "MKD /pub/x" legitimately changes what a later listing shows (the new entry "x"; on a real
            # file system also the link count and mtime of "pub").  The property is about *which location* is addressed,
            # not about snapshot isolation: listings are compared by their entry names, the created entry left out.
            d = norm(d)
            if d is None or verb == "RETR":
                return d
            names = sorted(ln.rsplit(b" ", 1)[-1] for ln in d.splitlines() if ln.strip())
            if "MKD /pub/x" in inter:
                names = [n for n in names if n != b"x"]
            return names

        if listed(with_inter.get("data")) != listed(base.get("data")):
            raise Violation(f"C02/window/{verb}/other_location_served_after_interposed_{first_inter}",
                            dict(detail, served=with_inter.get("data"), expected=base.get("data")))
    else:
        # the uploaded marker must land exactly where it lands without the interposed commands
        def where(tree):
            return sorted(k for k, v in tree.items() if v != DIR and b"<uploaded>" in v)
        # interposed MKD legitimately adds a directory: compare the files that carry the marker, and all other files
        if where(with_inter["tree"]) != where(base["tree"]):
            raise Violation(f"C02/window/{verb}/stored_at_another_location_after_interposed_{first_inter}",
                            dict(detail, stored_at=where(with_inter["tree"]), expected=where(base["tree"])))


def part_window(ctx):
    n = 150 if ctx.tier == "quick" else 4000
    hyp_run(ctx, WINDOW, lambda c: check_window(ctx, c), n, name="window")


def replay_window(case):
    from vlib.runner import Ctx
    check_window(Ctx(PROPERTY, "window", "quick", 0, 0, 1), tuple(case))


def plan(tier):
    return [("paths", 6), ("cwdwalk", 2), ("wire", 6), ("window", 4)]

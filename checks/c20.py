"""C20 - passwords never reach the logs (two-run non-interference + substring check)."""

import asyncio
import logging

from hypothesis import strategies as st

from vlib import harness, simnet
from vlib.harness import HOST, PORT, aioftp
from vlib.runner import Violation, hyp_run

PROPERTY = "C20"
LEVEL = "exploration"
RULE = ("Hypothesis draws a password template (1-12 items from: plain character, space, '%', '%s', '%(x)s', '{}', "
        "'{0}', non-ASCII, tab, quote, backslash), rendered twice over two disjoint alphabets so that the two passwords "
        "have equal length and differ in every plain position; a login scenario (Client.login accepted/rejected; raw "
        "USER+PASS; PASS before USER; PASS twice; PASS for a password-less user; PASS for an unknown user; PASS after "
        "re-USER), a verb spelling (PASS/pass/PaSs) and whether the password is the stored one. The identical session "
        "is run twice on simnet with handlers at level 0 on the root, aioftp.client and aioftp.server loggers, every "
        "record fully formatted (message % args, exception text). Oracle: the two formatted log streams are identical "
        "(= at most the length is revealed); additionally the distinctive characters of the password (>= 4-character "
        "windows) occur in no record. Non-trivial = template with a format directive, blank or non-ASCII, or an "
        "outcome other than 'accepted'; distinct by (template, scenario, verb, accept).")
ASSUMPTIONS = [
    "passwords are strings the line protocol can carry (no CR/LF/NUL, no trailing whitespace)",
    "asyncio's own logger is captured too (its records never contain protocol text)",
]

ALPHA1 = "qzQZ01"
ALPHA2 = "jxJX98"
TMPL = st.lists(st.sampled_from(["c", "c", "c", "c", " ", "%", "%s", "%(x)s", "{}", "{0}", "é", "\t", '"', "\\", "%d", "*", "я", "€", "\udc80",
                                 "\n", "\r\n"]),
                min_size=1, max_size=12)
MODES = ["client", "client", "raw", "early", "twice", "free", "nouser", "reuser", "client_context", "overlimit", "overlimit_server",
         "error_paths", "client_latin1", "client_ascii", "client_latin1", "work", "work", "overlong", "two_sessions", "two_sessions"]
CASE = st.tuples(TMPL, st.sampled_from(MODES), st.sampled_from(["PASS", "pass", "PaSs"]), st.booleans())


class Cap(logging.Handler):
    def __init__(self):
        super().__init__(level=0)
        self.recs = []

    def emit(self, r):
        try:
            msg = r.getMessage()
        except Exception as e:  # noqa
            msg = "FORMAT-ERROR " + repr(e) + repr(r.msg) + repr(r.args)
        exc = logging.Formatter().formatException(r.exc_info) if r.exc_info else ""
        # what travels with the record as objects counts too (handlers that serialise exceptions see it): the whole
        # chain of the exception, suppressed context included, with the data codec errors carry
        # (only for the library's own records: asyncio's "exception in callback" records chain to whatever exception the
        #  harness itself was handling at that moment)
        e, seen = (r.exc_info[1] if r.exc_info and r.name.startswith("aioftp") else None), 0
        while e is not None and seen < 8:
            exc += " | " + repr(e) + " " + repr(getattr(e, "object", ""))
            e, seen = (e.__cause__ or e.__context__), seen + 1
        self.recs.append((r.name, r.levelname, msg, exc, repr(r.args) if r.args else ""))


def render(t, alpha):
    # "é" stands for "some letter outside ASCII that latin-1 can carry": the twins get different ones, so that anything
    # derived from its value (e.g. the byte named in a decoding error) shows as a difference
    return "".join(alpha[i % len(alpha)] if x == "c" else ("ñ" if x == "é" and alpha is ALPHA2 else x) for i, x in enumerate(t))


class GhostIO(aioftp.MemoryPathIO):
    """An entry that is listed by its directory but does not exist when looked at (removed in between / dangling link)."""

    @aioftp.pathio.universal_exception
    async def exists(self, path):
        if path.name == "ghost":
            return False
        return await super().exists(path)


async def session(loop, pw, stored, mode, verb):
    limit = 1 if mode == "overlimit" else None
    server = aioftp.Server([aioftp.User("bob", stored, maximum_connections=limit), aioftp.User("free", None)],
                           path_io_factory=GhostIO if mode == "work" else aioftp.MemoryPathIO,
                           maximum_connections=2 if mode == "overlimit_server" else None, wait_future_timeout=1)
    await server.start(HOST, PORT)
    if mode == "overlong":
        # a PASS line beyond the stream limit (64 KiB), arriving in two pieces: whatever the server does with the excess,
        # neither piece may show up in a log record
        raw = harness.Raw()
        await raw.connect()
        await raw.cmd("USER bob")
        long_pw = (pw * (70000 // max(1, len(pw)) + 1))[:70000]
        cut = 66000
        raw.send((verb + " " + long_pw[:cut]).encode("utf-8", "replace"))
        await asyncio.sleep(0.5)
        raw.send((long_pw[cut:] + "\r\n").encode("utf-8", "replace"))
        for _ in range(3):
            code, _ls = await raw.reply()
            if code in ("EOF", "SILENCE"):
                break
        raw.close()
        await asyncio.sleep(0.1)
        await server.close()
        return
    if mode == "work":
        # a logged-in session of the password user walks through the server's other logging sites: listings (also of a
        # directory with a vanished entry), transfers, a transfer without data connection (425), ABOR, QUIT
        raw = harness.Raw()
        await raw.connect()
        await raw.cmd("USER bob")
        code, _ = await raw.cmd(verb + " " + pw)
        if code == "230":
            await raw.cmd("MKD /d")
            for ln, payload in (("STOR /d/ghost", b"boo"), ("STOR /d/f", b"data"), ("LIST /d", None), ("MLSD /d", None), ("LIST", None),
                                ("RETR /d/f", None), ("RETR /d/ghost", None)):
                code, lines = await raw.cmd("EPSV")
                if code != "229":
                    break
                raw.passive_port = harness.parse_passive(code, lines[-1])
                d = await raw.open_data()
                await asyncio.sleep(0.05)
                code, _ = await raw.cmd(ln)
                if code == "150":
                    if payload is not None:
                        d[1].write(payload)
                        d[1].close()
                    else:
                        await harness.read_all(d[0], 20)
                        d[1].close()
                    await raw.reply()
                else:
                    d[1].close()
            await raw.cmd("EPSV")
            code, _ = await raw.cmd("LIST /d")
            if code == "150":
                await raw.reply()  # 425
            await raw.cmd("ABOR")
            await raw.cmd("QUIT")
        raw.close()
        await asyncio.sleep(0.1)
        await server.close()
        return
    if mode in ("overlimit", "overlimit_server"):
        # the account (or the server) is at its connection limit when another session asks for it
        first = harness.Raw()
        await first.connect()
        await first.cmd("USER bob")
        await first.cmd(verb + " " + pw)
        second = harness.Raw()
        await second.connect()
        await second.cmd("USER bob")
        await second.cmd(verb + " " + pw)
        third = harness.Raw()
        code, _ = await third.connect()
        if code == "220":
            await third.cmd("USER bob")
        for r in (third, second, first):
            r.close()
    elif mode == "error_paths":
        # logged in (or not), then commands that end in error replies, an internal error and an abrupt end
        raw = harness.Raw()
        await raw.connect()
        await raw.cmd("USER bob")
        await raw.cmd(verb + " " + pw)
        for ln in ["CWD /nowhere", "RETR /nothing", "RNTO x", "FOO", "TYPE Z", "EPSV 7", "REST x", "MKD /d", "MKD /d", "USER bob", "PWD",
                   verb + " " + pw, "DELE /d"]:
            await raw.cmd(ln)
        raw.send(verb + " " + pw)
        raw.close()
    elif mode in ("client_latin1", "client_ascii"):
        # a client whose encoding may be unable to carry the password: the failure must not spill it either
        c = aioftp.Client(path_io_factory=aioftp.MemoryPathIO, encoding="latin-1" if mode == "client_latin1" else "ascii")
        await c.connect(HOST, PORT)
        try:
            await c.login("bob", pw)
            await c.get_current_directory()
        except (aioftp.StatusCodeError, UnicodeError, ConnectionError, ValueError):
            pass
        c.close()
    elif mode == "client":
        c = aioftp.Client(path_io_factory=aioftp.MemoryPathIO)
        await c.connect(HOST, PORT)
        try:
            await c.login("bob", pw)
        except (aioftp.StatusCodeError, ValueError, ConnectionError):
            pass
        c.close()
    elif mode == "client_context":
        try:
            async with aioftp.Client.context(HOST, PORT, "bob", pw, path_io_factory=aioftp.MemoryPathIO) as c:
                await c.get_current_directory()
        except (aioftp.StatusCodeError, ConnectionError, ValueError):
            pass
    elif mode == "two_sessions":
        # two sessions of the same password account, re-USER in one and then in the other (state shared per account)
        a, b = harness.Raw(), harness.Raw()
        line = verb + " " + pw
        for r in (a, b):
            await r.connect()
            await r.cmd("USER bob")
            await r.cmd(line)
        for r, ln in ((a, "USER free"), (a, "PWD"), (b, "USER bob"), (b, line), (b, "PWD"), (a, "USER bob"), (a, line), (b, "USER nobody"),
                      (a, "USER bob"), (a, line), (a, "QUIT"), (b, "QUIT")):
            code, _ls = await r.cmd(ln)
            if code == "EOF":
                break
        a.close()
        b.close()
    else:
        raw = harness.Raw()
        await raw.connect()
        line = verb + " " + pw
        seq = {"raw": ["USER bob", line], "early": [line, "USER bob", line], "twice": ["USER bob", line, line],
               "free": ["USER free", line], "nouser": ["USER nobody", line],
               "reuser": ["USER bob", line, "USER bob", "PWD", line]}[mode]
        for ln in seq:
            await raw.cmd(ln)
        raw.close()
    await asyncio.sleep(0.1)
    await server.close()


def check(ctx, case):
    t, mode, verb, accept = case
    p1, p2 = render(t, ALPHA1), render(t, ALPHA2)
    # third twin: same length, every special item replaced by plain characters (reveals leaks of *structure*)
    p3 = "".join(ALPHA2[i % len(ALPHA2)] if x == "c" else "w" * len(x) for i, x in enumerate(t))
    if p1 == p2 or p1.rstrip() != p1 or p1.lstrip() != p1 and False:
        ctx.evaluations += 1
        ctx.classes["degenerate_template"] += 1
        return
    if any("\n" in x for x in t) and not mode.startswith("client"):
        # a password with a line break can only be *attempted* through Client.login(); a raw PASS line cannot carry it
        mode = "client"
    cap = Cap()
    loggers = [logging.getLogger(), logging.getLogger("aioftp"), logging.getLogger("aioftp.client"),
               logging.getLogger("aioftp.server"), logging.getLogger("asyncio")]
    saved = [(lg, lg.level, lg.propagate) for lg in loggers]
    logs = []
    try:
        for lg in loggers:
            lg.setLevel(0)
            lg.propagate = True
        logging.getLogger().addHandler(cap)
        for p in (p1, p2, p3):
            cap.recs.clear()
            try:
                simnet.run(lambda l: session(l, p, p if accept else "other-stored", mode, verb))
            except UnicodeError:
                pass  # the harness' own raw client cannot encode a lone surrogate: the attempt ends there, logs still count
            logs.append(list(cap.recs))
    finally:
        logging.getLogger().removeHandler(cap)
        for lg, lvl, prop in saved:
            lg.setLevel(lvl)
            lg.propagate = prop
    nt = any(x != "c" for x in t) or not accept or mode not in ("client", "raw", "client_context")
    ctx.count([t, mode, verb, accept], nt,
              sample=dict(password=p1, twin=p2, scenario=mode, verb=verb, stored_equals=accept, log_records=len(logs[0]),
                          pass_lines=[r[2] for r in logs[0] if "pass" in r[2].lower()][:3]),
              classes=["mode_" + mode, "accept_%s" % accept, "verb_" + verb] + (["has_directive"] if any("%" in x or "{" in x for x in t) else []))
    if len(logs[0]) < 4:
        raise Violation("C20/harness/no_log_records", dict(n=len(logs[0])))
    side = "client" if mode.startswith("client") else "server"
    unencodable = (any(x in ("я", "€", "\udc80") for x in t) or (mode in ("client_latin1", "client_ascii") and any(ord(ch) > 127 for x in t for ch in x))
                   or any("\n" in x for x in t))  # (a line break makes the client refuse the attempt: the plain twin logs in instead)
    for other, px in ((logs[1], p2),) if unencodable else ((logs[1], p2), (logs[2], p3)):
        # (the third twin replaces special items by plain characters: with an un-encodable item the sessions legitimately differ)
        if logs[0] != other:
            diff = [(a, b) for a, b in zip(logs[0], other) if a != b][:3]
            who = sorted({a[0] for a, b in diff}) or ["length"]
            raise Violation(f"C20/interference/{'+'.join(who)}/{mode}", dict(p1=p1, p2=px, mode=mode, verb=verb, accept=accept, diff=diff))
    # substring check on distinctive windows
    plain = [i for i, x in enumerate(t) if x == "c"]
    for p, recs in ((p1, logs[0]), (p2, logs[1])):
        if len(p) >= 4:
            wins = {p[i:i + 4] for i in range(len(p) - 3)}
            for r in recs:
                text = " ".join(r[2:])
                if p in text or (len(plain) >= 4 and any(w in text for w in wins if sum(ch in ALPHA1 + ALPHA2 for ch in w) >= 3)):
                    raise Violation(f"C20/password_in_log/{r[0]}/{mode}", dict(password=p, record=r))


def part_logs(ctx):
    n = 800 if ctx.tier == "quick" else 15000
    hyp_run(ctx, CASE, lambda c: check(ctx, c), n, name="logs")


def replay_logs(case):
    from vlib.runner import Ctx
    check(Ctx(PROPERTY, "logs", "quick", 0, 0, 1), tuple(case))


def plan(tier):
    return [("logs", 16)]

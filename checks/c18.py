"""C18 - the three shipped storage backends are interchangeable behind the server; PathIO and AsyncPathIO agree
at the backend API."""

import asyncio
import pathlib
import stat as statmod

from hypothesis import strategies as st

from vlib import harness, simnet, walk
from vlib.ftpmodel import DIR
from vlib.harness import HOST, PORT, Raw, aioftp, read_all
from vlib.runner import Violation, hyp_run

PROPERTY = "C18"
LEVEL = "exploration"
RULE = ("ftp: Hypothesis abstract programs (the C05 grammar: all verbs, restart offsets incl. restart writes to "
        "missing files, renames onto/into/through files and directories, transfers to new and existing files and onto "
        "directories, paths through files) are concretised once and replayed on MemoryPathIO, PathIO and AsyncPathIO "
        "servers on simnet; after every command the three must agree on reply class (first digit of each reply), "
        "transferred bytes / listing names and the whole tree. api: generated operation sequences over the backend "
        "API (exists/is_dir/is_file/mkdir/rmdir/unlink/list/stat/open rb,wb,ab,r+b + seek/read/write/rename) on "
        "PathIO vs AsyncPathIO: same result-or-failure per step and same tree. Non-trivial = history with a failing "
        "mutation (4xx/5xx on MKD/RMD/DELE/RNTO/STOR/APPE) or an open mode other than rb/wb; distinct by hash of "
        "the concrete history / op sequence.")
ASSUMPTIONS = [
    "mutations aimed at the virtual root are outside the property and end the history",
    "AsyncPathIO's executor is simnet's inline executor in the quick tier; real threads on the stock loop in thorough",
    "file times are not compared (C07's subject); listings are compared as name multisets",
]
REPLAY_ATTEMPTS = 2

STEP = st.tuples(*[st.integers(0, 255)] * 5)
CASE = st.tuples(st.lists(STEP, min_size=6, max_size=36), st.sampled_from([1, 4, 8192]),
                 st.lists(st.integers(0, 255), max_size=12))
TREE = {"/": DIR, "/c": DIR, "/c/g": b"0123456789", "/a": DIR, "/a/b": DIR, "/f": b"file-f"}
MUTATING = {"MKD", "RMD", "DELE", "RNTO", "STOR", "APPE"}


async def observe(loop, history, backend, tmp, block, tape_unused=None):
    users = [aioftp.User(base_path=tmp)] if backend != "mem" else [aioftp.User()]
    server = aioftp.Server(users, path_io_factory=harness.BACKENDS[backend], wait_future_timeout=2, block_size=block)
    await server.start(HOST, PORT)
    if backend == "mem":
        harness.mem_populate(server, TREE)
        snap = lambda: harness.mem_tree(server)  # noqa: E731
    else:
        harness.fs_populate(tmp, TREE)
        snap = lambda: harness.fs_tree(tmp)  # noqa: E731
    c = Raw(HOST, PORT, patience=40)
    await c.connect()
    obs = []
    data_sock = None
    for cs in history:
        v, arg, connect, payload = cs["verb"], cs["arg"], cs["connect"], cs["payload"]
        V = v.upper()
        if connect == "before" and c.passive_port and data_sock is None:
            try:
                data_sock = await c.open_data()
                await asyncio.sleep(0.3)
            except OSError:
                data_sock = None
        line = (v + " " + arg) if arg != "" else v
        code, lines = await c.cmd(line)
        o = dict(cmd=line, codes=[code])
        obs.append(o)
        if code in ("227", "229") and data_sock is not None:
            data_sock[1].close()
            data_sock = None
        if code == "150":
            if connect != "never" and data_sock is None and c.passive_port:
                try:
                    data_sock = await c.open_data()
                except OSError:
                    data_sock = None
            if data_sock is not None:
                r, w = data_sock
                data_sock = None
                if V in ("STOR", "APPE"):
                    w.write(payload)
                    w.close()
                else:
                    data, eof = await read_all(r, 40)
                    w.close()
                    o["eof"] = eof
                    if V == "RETR":
                        o["data"] = data
                    else:
                        try:
                            o["names"] = sorted((ln.split(" ", 1)[1] if V == "MLSD" else ln.split()[-1])
                                                for ln in data.decode().splitlines())
                        except Exception:  # noqa
                            o["names"] = ["<unparsable>", data]
            code2, _ = await c.reply()
            o["codes"].append(code2)
        o["tree"] = snap()
        if "EOF" in o["codes"] or code == "221":
            break
        await asyncio.sleep(0.05)
    if data_sock:
        data_sock[1].close()
    c.close()
    await asyncio.wait_for(server.close(), 1000)
    return obs


def classes_of(o):
    return [x[:1] if x[:1].isdigit() else x for x in o["codes"]]


def check_ftp(ctx, case):
    program, block, tape = case
    history = walk.concretise([(0, 0, 0, 0, 0)] + list(program), users=[dict(login=None, password=None, home="/", perms=[("/", True, True)])],
                              tree=TREE, user_names=["anonymous"])
    res = {}
    for be in ("mem", "fs", "afs"):
        with harness.TempDirs() as td:
            tmp = td.new() if be != "mem" else None
            res[be] = simnet.run(lambda loop: observe(loop, history, be, tmp, block), tape)
    failing_mut = any(o["cmd"].split(" ")[0].upper() in MUTATING and o["codes"][-1][:1] in "45" for o in res["fs"])
    restart_missing = any(o["cmd"].split(" ")[0].upper() in ("STOR", "APPE") and o["codes"] == ["150", "451"] for o in res["fs"])
    ctx.count([history], failing_mut or restart_missing,
              sample=dict(block=block, history=[(o["cmd"], o["codes"]) for o in res["fs"]]),
              classes=(["failing_mutation"] if failing_mut else []) + (["restart_write_missing"] if restart_missing else [])
              + ["verb_" + (o["cmd"].split(" ")[0].upper() or "EMPTY") for o in res["fs"]])
    ctx.classes["steps"] += len(res["fs"])
    ref = res["fs"]
    for be in ("afs", "mem"):
        other = res[be]
        for i, (a, b) in enumerate(zip(ref, other)):
            V = a["cmd"].split(" ")[0].upper() or "EMPTY"
            pair = f"fs_vs_{be}"
            detail = dict(step=i, cmd=a["cmd"], fs=dict(codes=a["codes"]), other=dict(codes=b["codes"]),
                          history=[(o["cmd"], o["codes"]) for o in ref[:i + 1]])
            if classes_of(a) != classes_of(b):
                raise Violation(f"C18/ftp/{pair}/reply_class/{V}/fs={'+'.join(a['codes'])}/{be}={'+'.join(b['codes'])}", detail)
            if a.get("data") != b.get("data") or a.get("names") != b.get("names"):
                raise Violation(f"C18/ftp/{pair}/transferred_bytes/{V}", dict(detail, fs_data=a.get("data"), other_data=b.get("data"),
                                                                              fs_names=a.get("names"), other_names=b.get("names")))
            if a["tree"] != b["tree"]:
                raise Violation(f"C18/ftp/{pair}/tree/{V}/codes={'+'.join(a['codes'])}",
                                dict(detail, only_fs={k: v for k, v in a["tree"].items() if b["tree"].get(k) != v},
                                     only_other={k: v for k, v in b["tree"].items() if a["tree"].get(k) != v}))
        if len(ref) != len(other):
            raise Violation(f"C18/ftp/fs_vs_{be}/history_length", dict(fs=len(ref), other=len(other)))
    # a failing command changes nothing (on the reference backend; equality above extends it to the others)
    prev = dict(TREE)
    for o in ref:
        V = o["cmd"].split(" ")[0].upper()
        if o["codes"][-1][:1] in "45" and V not in ("STOR", "APPE") and o["tree"] != prev:
            raise Violation(f"C18/ftp/failed_command_changed_tree/{V}", dict(cmd=o["cmd"], codes=o["codes"]))
        prev = o["tree"]


def part_ftp(ctx):
    n = 300 if ctx.tier == "quick" else 2500
    hyp_run(ctx, CASE, lambda c: check_ftp(ctx, c), n, name="ftp")


def replay_ftp(case):
    from vlib.runner import Ctx
    check_ftp(Ctx(PROPERTY, "ftp", "quick", 0, 0, 1), tuple(case))


# ---------------------------------------------------------------- backend API differential
NAMES3 = ["a", "b", "f"]
PATH = st.lists(st.sampled_from(NAMES3), min_size=1, max_size=3).map("/".join)
ACT = st.tuples(st.sampled_from(["seek", "read", "write", "seek_end", "seek_cur"]), st.integers(0, 6))
OP = st.one_of(
    st.tuples(st.sampled_from(["exists", "is_dir", "is_file", "rmdir", "unlink", "list", "stat"]), PATH),
    st.tuples(st.just("mkdir"), PATH, st.booleans(), st.booleans()),
    st.tuples(st.just("open"), PATH, st.sampled_from(["rb", "wb", "ab", "r+b"]), st.lists(ACT, max_size=4)),
    st.tuples(st.just("rename"), PATH, PATH),
)
OPS = st.lists(OP, min_size=1, max_size=14)


async def apply_ops(pio, base, ops, snap):
    res = []
    for op in ops:
        k, p = op[0], base / op[1]
        try:
            if k in ("exists", "is_dir", "is_file"):
                r = await getattr(pio, k)(p)
            elif k == "mkdir":
                r = await pio.mkdir(p, parents=op[2], exist_ok=op[3])
            elif k in ("rmdir", "unlink"):
                r = await getattr(pio, k)(p)
            elif k == "list":
                r = sorted(x.name for x in await pio.list(p))
            elif k == "stat":
                s = await pio.stat(p)
                r = ("dir" if statmod.S_ISDIR(s.st_mode) else "file", None if statmod.S_ISDIR(s.st_mode) else s.st_size)
            elif k == "rename":
                r = await pio.rename(p, base / op[2])
            elif k == "open":
                r = []
                async with pio.open(p, mode=op[2]) as f:
                    for a, n in op[3]:
                        try:
                            if a == "seek":
                                r.append(("seek", await f.seek(n)))
                            elif a == "seek_end":
                                r.append(("seek_end", await f.seek(-min(n, 2), 2) if n % 2 else await f.seek(0, 2)))
                            elif a == "seek_cur":
                                r.append(("seek_cur", await f.seek(n, 1)))
                            elif a == "read":
                                r.append(("read", await f.read(n)))
                            else:
                                await f.write(b"w" * n)
                                r.append(("write", n))
                        except aioftp.PathIOError:
                            r.append((a, "ERR"))
            res.append(["ok", r if k not in ("mkdir", "rmdir", "unlink", "rename") else None])
        except aioftp.PathIOError:
            res.append(["ERR", None])
        res[-1].append(snap())
    return res


def check_api(ctx, ops, real_threads=False):
    async def run(loop=None):
        with harness.TempDirs() as td:
            d1, d2 = td.new(), td.new()
            a = await apply_ops(aioftp.PathIO(), pathlib.Path(d1), ops, lambda: harness.fs_tree(d1))
            b = await apply_ops(aioftp.AsyncPathIO(), pathlib.Path(d2), ops, lambda: harness.fs_tree(d2))
        return a, b

    if real_threads:
        a, b = asyncio.run(run())
    else:
        a, b = simnet.run(run, [3, 1, 2, 0, 1, 3, 2])
    nt = any(r[0] == "ERR" for r in a) or any(op[0] == "open" and op[2] in ("ab", "r+b") for op in ops)
    ctx.count(ops, nt, sample=dict(ops=ops, results=[r[:2] for r in a]),
              classes=["op_" + op[0] + ("_" + op[2] if op[0] == "open" else "") for op in ops] + (["has_failure"] if any(r[0] == "ERR" for r in a) else [])
              + (["real_threads"] if real_threads else []))
    for i, (op, x, y) in enumerate(zip(ops, a, b)):
        if x[:2] != y[:2]:
            raise Violation(f"C18/api/result/{op[0]}{'_' + op[2] if op[0] == 'open' else ''}", dict(step=i, op=op, pathio=x[:2], asyncpathio=y[:2], ops=ops))
        if x[2] != y[2]:
            raise Violation(f"C18/api/tree/{op[0]}", dict(step=i, op=op, ops=ops))


def part_api(ctx):
    n = 900 if ctx.tier == "quick" else 6000
    hyp_run(ctx, OPS, lambda c: check_api(ctx, c), n, name="api")
    if ctx.tier == "thorough":
        hyp_run(ctx, OPS, lambda c: check_api(ctx, c, real_threads=True), 400, name="api_threads")


def replay_api(case):
    from vlib.runner import Ctx
    check_api(Ctx(PROPERTY, "api", "quick", 0, 0, 1), [tuple(o) for o in case])


def plan(tier):
    return [("ftp", 12), ("api", 4)]

"""C07 - listings and stats report the backend's truth (MLSD, MLST, LIST fallback)."""

import asyncio
import collections
import datetime
import os
import pathlib
import stat as statmod
import time

from hypothesis import strategies as st

from vlib import harness, simnet
from vlib.harness import HOST, PORT, aioftp
from vlib.runner import Violation, hyp_run

from aioftp.common import HALF_OF_YEAR_IN_SECONDS as H

PROPERTY = "C07"
LEVEL = "exploration"
RULE = ("plane: Hypothesis draws (now in 1990-2040 biased to New Year, Feb 28-Mar 1, Aug 30; delta = now - mtime biased to "
        "{minutes, days, half-year +- 3 days, one year +- 2 days, decades, negative = future}; parse lag 0-5 s) in each of "
        "4 process time zones (UTC, America/New_York, Australia/Lord_Howe, Asia/Kolkata); real Server.build_list_mtime -> "
        "real Client.parse_ls_date; oracle: localtime(mtime) to the minute if now-H < mtime <= now else to the day; "
        "cases within one day of the half-year boundary are outside the property and skipped (counted). "
        "lines: generated stat tuples through the real build_list_string / build_mlsx_string and the real parsers. "
        "e2e: generated directories (0-12 entries, files/dirs, sizes to 2^40 via stat override, mtimes as above, "
        "metacharacter names) on memory and PathIO backends listed through the real client on simnet with MLSD, "
        "LIST (raw_command), stat via MLST and the same against a server without MLSD/MLST; oracle: multiset of names, "
        "type, size, MLSx modify = UTC seconds of st_mtime, LIST time per the precision rule. Non-trivial = delta within "
        "3 days of the half-year switch, or crossing a year boundary, or Feb 29, or a listing with >= 3 entries; "
        "distinct by hash of the case. "
        "dateline: enumerated (zone with a skipped calendar day | UTC) x (year before/after) x (inside/outside the half year) x a grid of 'now' values x distances 1.05-20 days from the boundary, same oracle as plane.")
ASSUMPTIONS = [
    "the one-day window around now - half-year is excluded (the property excludes it: the year-less format is ambiguous there)",
    "LIST times are compared in the process-local time zone (client and server share it)",
    "names with leading whitespace do not survive the LIST fallback: recorded known finding F12 (KNOWN_FINDINGS)",
]
REPLAY_ATTEMPTS = 2

DAY = 86400
ZONES = ["UTC", "America/New_York", "Australia/Lord_Howe", "Asia/Kolkata"]


def set_zone(z):
    os.environ["TZ"] = z
    time.tzset()


def special_nows():
    out = []
    for y in range(1991, 2040):
        for mon, day in ((1, 1), (3, 1), (8, 30), (12, 31), (7, 1)):
            out.append(int(time.mktime((y, mon, day, 0, 0, 0, 0, 0, -1))))
    return out


NOW = st.one_of(st.integers(631152000, 2208988800),
                st.builds(lambda i, d: (i, d), st.integers(0, 10 ** 6), st.integers(-3 * DAY, 3 * DAY)))
DELTA = st.one_of(st.integers(0, 3600), st.integers(0, 400 * DAY), st.integers(H - 3 * DAY, H + 3 * DAY),
                  st.integers(-400 * DAY, -1), st.integers(365 * DAY - 2 * DAY, 366 * DAY + 2 * DAY),
                  st.integers(0, 30 * 365 * DAY), st.integers(H - 40 * DAY, H + 40 * DAY))
PLANE = st.tuples(NOW, DELTA, st.integers(0, 5))

_SN = {}


def resolve_now(now):
    if isinstance(now, (tuple, list)):
        z = os.environ.get("TZ", "UTC")
        if z not in _SN:
            _SN[z] = special_nows()
        sn = _SN[z]
        return sn[now[0] % len(sn)] + now[1]
    return now


def expected_ls(mtime, now):
    lt = time.localtime(mtime)
    recent = now - H < mtime <= now
    return (time.strftime("%Y%m%d%H%M00", lt) if recent else time.strftime("%Y%m%d000000", lt)), recent


def nontrivial_time(mtime, now):
    if abs((now - mtime) - H) < 3 * DAY:
        return True
    a, b = time.localtime(mtime), time.localtime(now)
    if a.tm_year != b.tm_year:
        return True
    return (a.tm_mon, a.tm_mday) == (2, 29)


def check_plane(ctx, case, zone):
    now, delta, lag = case
    now = resolve_now(now)
    mtime = now - delta
    if mtime <= 0:
        ctx.evaluations += 1
        return
    if abs((now - mtime) - H) < DAY:
        ctx.evaluations += 1
        ctx.classes["excluded_window"] += 1
        return
    s = aioftp.Server.build_list_mtime(mtime, now)
    pnow = datetime.datetime.fromtimestamp(now + lag)
    try:
        got = aioftp.Client.parse_ls_date(s, now=pnow)
    except Exception as e:  # noqa
        raise Violation(f"C07/plane/parse_raises_{type(e).__name__}", dict(zone=zone, now=now, mtime=mtime, text=s))
    exp, recent = expected_ls(mtime, now)
    ctx.count([zone, now, mtime, lag], nontrivial_time(mtime, now),
              sample=dict(zone=zone, now=time.strftime("%Y-%m-%d %H:%M:%S", time.localtime(now)),
                          mtime=time.strftime("%Y-%m-%d %H:%M:%S", time.localtime(mtime)), ls_text=s, parsed=got),
              classes=["zone_" + zone, "recent" if recent else ("future" if mtime > now else "old")]
              + (["near_half_year"] if abs((now - mtime) - H) < 3 * DAY else [])
              + (["feb29"] if s.startswith("Feb 29") else []))
    if got != exp:
        kind = "recent" if recent else ("future" if mtime > now else "old")
        sym = "year" if got[4:] == exp[4:] else ("precision" if got[:8] == exp[:8] else "date")
        raise Violation(f"C07/plane/{kind}/{sym}", dict(zone=zone, now=now, mtime=mtime, lag=lag, ls_text=s, got=got, expected=exp,
                                                        now_local=time.strftime("%Y-%m-%d %H:%M:%S", time.localtime(now))))


def part_plane(ctx):
    zone = ZONES[ctx.shard % len(ZONES)]
    set_zone(zone)
    n = 4000 if ctx.tier == "quick" else 150000
    hyp_run(ctx, PLANE, lambda c: check_plane(ctx, c, zone), n, name="plane_" + zone)


def replay_plane(case):
    from vlib.runner import Ctx
    for z in ZONES:
        set_zone(z)
        check_plane(Ctx(PROPERTY, "plane", "quick", 0, 0, 1), tuple(case), z)


# ---------------------------------------------------------------- end to end
SPECIAL = ['"', ' ', '  ', ';', '=', 'Type=dir;', ' -> ', '-', '250 ', '\\', '%s', 'é', '\U0001F600', 'x', 'y', 'size=1;', '1']
NAME = st.one_of(st.lists(st.one_of(st.sampled_from(SPECIAL), st.text(alphabet="abcdefgh.", min_size=1, max_size=4)), min_size=1,
                          max_size=4).map("".join), st.just("d")).filter(lambda s: s not in (".", "..") and not s[-1].isspace() and len(s.encode()) < 120)
ENTRY = st.tuples(NAME, st.booleans(), st.one_of(st.integers(0, 2000), st.integers(0, 1 << 40)), DELTA)
E2E = st.tuples(st.lists(ENTRY, max_size=12, unique_by=lambda e: e[0]), NOW, st.sampled_from(["mem", "mem", "fs"]),
                st.booleans(), st.integers(0, 3))


# permission bits as real file systems have them, incl. set-uid / set-gid / sticky with and without the execute bit
# (ls prints s/S and t/T for them)
FILE_PERMS = [None, 0o644, 0o755, 0o4755, 0o2755, 0o4644, 0o2644, 0o1644, 0o1755, 0o7777, 0o7666, 0o000, 0o600]
DIR_PERMS = [None, 0o755, 0o1777, 0o1776, 0o2775, 0o2765, 0o4755, 0o700]


def perm_for(isdir, size, delta):
    pool = DIR_PERMS if isdir else FILE_PERMS
    return pool[(size + delta) % len(pool)]


def make_sized_backend(sizes, perms=None):
    perms = perms or {}

    class SizedMemory(aioftp.MemoryPathIO):
        async def stat(self, path):
            s = await super().stat(path)
            if path.name in sizes and statmod.S_ISREG(s.st_mode):
                s = s._replace(st_size=sizes[path.name])
            if perms.get(path.name) is not None:
                s = s._replace(st_mode=statmod.S_IFMT(s.st_mode) | perms[path.name])
            return s

    return SizedMemory


async def _e2e(loop, entries, now, backend, listonly, tmp, result, hist=0):
    harness.set_wall_clock(now)
    sizes = {}
    if backend == "mem":
        sizes = {name: size for name, isdir, size, _ in entries if not isdir}
        fac = make_sized_backend(sizes, {name: perm_for(isdir, size, delta) for name, isdir, size, delta in entries})
        users = [aioftp.User()]
    else:
        fac = aioftp.PathIO
        users = [aioftp.User(base_path=tmp)]
    server = aioftp.Server(users, path_io_factory=fac)
    if listonly:
        server.commands_mapping.pop("mlsd")
        server.commands_mapping.pop("mlst")
    await server.start(HOST, PORT)
    truth = {}
    if backend == "mem":
        pio = server.path_io_factory(timeout=None, connection=None)
        await pio.mkdir(pathlib.PurePosixPath("/d"))
        node = pio.get_node(pathlib.PurePosixPath("/d"))
        import io
        from aioftp.pathio import Node
        for name, isdir, size, delta in entries:
            mtime = max(1, now - delta)
            # creation time differs from the modification time (another year, day and second): a backend or a
            # listing that reports the wrong one of the two is visible
            ctime = max(1, mtime - 400 * DAY - 3723) if len(name) % 2 else mtime + 35 * DAY + 61
            n = Node("dir" if isdir else "file", name, ctime=ctime, mtime=mtime, content=[] if isdir else io.BytesIO(b"x"))
            node.content.append(n)
            truth[name] = ("dir" if isdir else "file", 0 if isdir else size, mtime)
    else:
        os.mkdir(os.path.join(tmp, "d"))
        for name, isdir, size, delta in entries:
            mtime = max(1, now - delta)
            full = os.path.join(tmp, "d", name)
            if isdir:
                os.mkdir(full)
            else:
                with open(full, "wb") as fh:
                    fh.write(b"z" * (size % 3000))
            if perm_for(isdir, size, delta) is not None:
                os.chmod(full, perm_for(isdir, size, delta))
            os.utime(full, (mtime, mtime))
            st_ = os.stat(full)
            truth[name] = ("dir" if isdir else "file", st_.st_size, mtime)
    c = aioftp.Client(path_io_factory=aioftp.MemoryPathIO)
    await c.connect(HOST, PORT)
    if hist & 1:
        # history of the client object: a listing asked for before the login is refused (503); what the client reports
        # afterwards must not depend on it
        try:
            await c.list("d")
        except aioftp.StatusCodeError:
            result["refused_before_login"] += 1
    await c.login()
    try:
        modes = [("auto", None)] + ([] if listonly else [("LIST", "LIST")]) + ([("auto", None)] if hist & 2 else [])
        for label, raw in modes:
            is_list = listonly or raw == "LIST"
            tag = "list" if is_list else "mlsd"
            try:
                res = await c.list("d", raw_command=raw)
            except Exception as e:  # noqa
                raise Violation(f"C07/e2e/{tag}/raised_{type(e).__name__}", dict(error=repr(e)[:300], entries=entries))
            got_names = collections.Counter(p.name if str(p.parent) == "d" else str(p) for p, i in res)
            exp_names = collections.Counter(truth.keys())
            if got_names != exp_names:
                missing = dict(exp_names - got_names)
                lead = [n for n in missing if n[0].isspace()]
                sym = "name_leading_whitespace_stripped" if lead and len(lead) == len(missing) and is_list else "names"
                raise Violation(f"C07/e2e/{tag}/{sym}", dict(missing=missing, extra=dict(got_names - exp_names)))
            for p, info in res:
                typ, size, mtime = truth[p.name]
                if info["type"] != typ:
                    raise Violation(f"C07/e2e/{tag}/type", dict(name=p.name, got=info["type"], expected=typ))
                if typ == "file" or not is_list:
                    if "size" not in info or int(info["size"]) != size:
                        raise Violation(f"C07/e2e/{tag}/size", dict(name=p.name, got=info.get("size"), expected=size))
                if is_list:
                    tnow = harness.wall_now()
                    if abs((tnow - mtime) - H) < DAY:
                        result["excluded_window"] += 1
                        continue
                    exp, recent = expected_ls(mtime, tnow)
                    if info["modify"] != exp:
                        raise Violation(f"C07/e2e/list/modify/{'recent' if recent else 'old'}",
                                        dict(name=p.name, got=info["modify"], expected=exp, mtime=mtime, now=tnow))
                else:
                    exp = time.strftime("%Y%m%d%H%M%S", time.gmtime(mtime))
                    if info["modify"] != exp:
                        raise Violation("C07/e2e/mlsd/modify", dict(name=p.name, got=info["modify"], expected=exp))
            result["listings"] += 1
        # stat of the listed directory itself (it may contain an entry of the same name)
        try:
            info = await c.stat("d")
        except Exception as e:  # noqa
            raise Violation(f"C07/e2e/stat_dir/raised_{type(e).__name__}", dict(error=repr(e)[:200], entries=entries))
        if info["type"] != "dir":
            raise Violation("C07/e2e/stat_dir/type", dict(got=info, entries=[e_[:2] for e_ in entries]))
        # ... and of its parent, spelled with '..'
        for spelled in ("d/..", ".."):
            try:
                info = await c.stat(spelled)
            except Exception as e:  # noqa
                raise Violation(f"C07/e2e/stat_dotdot/raised_{type(e).__name__}", dict(path=spelled, error=repr(e)[:200]))
            if info["type"] != "dir":
                raise Violation("C07/e2e/stat_dotdot/type", dict(path=spelled, got=info))
        # stat of single entries (MLST, or the LIST fallback inside stat())
        for name, (typ, size, mtime) in list(truth.items())[:4]:
            if listonly and name[0].isspace():
                continue
            try:
                info = await c.stat(pathlib.PurePosixPath("d") / name)
            except Exception as e:  # noqa
                raise Violation(f"C07/e2e/stat/raised_{type(e).__name__}", dict(name=name, error=repr(e)[:200]))
            if info["type"] != typ or (typ == "file" and int(info["size"]) != size):
                raise Violation("C07/e2e/stat/type_or_size", dict(name=name, got=info, expected=(typ, size)))
            if not listonly and info["modify"] != time.strftime("%Y%m%d%H%M%S", time.gmtime(mtime)):
                raise Violation("C07/e2e/stat/modify", dict(name=name, got=info["modify"], mtime=mtime))
    finally:
        c.close()
        await asyncio.wait_for(server.close(), 1000)
        harness.set_wall_clock(harness.EPOCH0)


def check_e2e(ctx, case, zone):
    entries, now, backend, listonly, hist = case
    now = resolve_now(now)
    result = collections.Counter()
    try:
        with harness.TempDirs() as td:
            tmp = td.new() if backend != "mem" else None
            simnet.run(lambda loop: _e2e(loop, entries, now, backend, listonly, tmp, result, hist))
    finally:
        nt = len(entries) >= 3 or any(nontrivial_time(max(1, now - e[3]), now) for e in entries)
        ctx.count([zone, case], nt, sample=dict(zone=zone, backend=backend, list_only_server=listonly,
                                                now=time.strftime("%Y-%m-%d %H:%M", time.localtime(now)),
                                                entries=[(e[0], "dir" if e[1] else "file", e[2], e[3]) for e in entries[:6]]),
                  classes=["zone_" + zone, "be_" + backend, "listonly" if listonly else "mlsd+list", "entries_%d" % min(len(entries), 5), "client_history_%d" % hist]
                  + (["big_size"] if any(e[2] > 1 << 32 for e in entries) else [])
                  + (["leading_space_name"] if any(e[0][0].isspace() for e in entries) else []))
        ctx.classes["excluded_window_entries"] += result["excluded_window"]


def part_e2e(ctx):
    zone = ZONES[ctx.shard % len(ZONES)]
    set_zone(zone)
    n = 180 if ctx.tier == "quick" else 2000
    hyp_run(ctx, E2E, lambda c: check_e2e(ctx, c, zone), n, name="e2e_" + zone)


def replay_e2e(case):
    from vlib.runner import Ctx
    for z in ZONES[:2]:
        set_zone(z)
        check_e2e(Ctx(PROPERTY, "e2e", "quick", 0, 0, 1), tuple(case), z)


# ---------------------------------------------------------------- every mode string the server can print is parsed (exhaustive)
def part_modes(ctx):
    """All 7 x 4096 (file type, permission bits) values: the line the server builds with stat.filemode must be accepted by the
    client's parser with the same type class (a rejected line makes the whole listing fail)."""
    import stat as st_
    c = aioftp.Client(path_io_factory=aioftp.MemoryPathIO)
    types = [st_.S_IFREG, st_.S_IFDIR, st_.S_IFLNK, st_.S_IFBLK, st_.S_IFCHR, st_.S_IFIFO, st_.S_IFSOCK]
    for t in types[ctx.shard::ctx.nshards]:
        for perm in range(0o10000):
            fm = st_.filemode(t | perm)
            line = (fm + " 1 none none 5 Jan  1  2020 name" + (" -> target" if t == st_.S_IFLNK else "")).encode()
            ctx.count(("modes", t, perm), bool(perm & 0o7000), sample=dict(mode_string=fm), classes=["modes"])
            try:
                p, info = c.parse_list_line(line + b"\r\n")
            except ValueError as e:
                ctx.fail("C07/modes/server_mode_string_rejected_by_client/" + fm[3] + fm[6] + fm[9], dict(kind="modes", mode=t | perm),
                         dict(mode_string=fm, error=repr(e)[:200]))
                continue
            exp_type = {st_.S_IFDIR: "dir", st_.S_IFREG: "file", st_.S_IFLNK: "file"}.get(t)  # devices, fifos, sockets: "unknown"
            if str(p) != "name" or (exp_type is not None and info["type"] != exp_type):
                ctx.fail("C07/modes/wrong_name_or_type", dict(kind="modes", mode=t | perm), dict(mode_string=fm, got=[str(p), info["type"]]))


def replay_modes(case):
    import stat as st_
    fm = st_.filemode(case["mode"])
    aioftp.Client(path_io_factory=aioftp.MemoryPathIO).parse_list_line(
        (fm + " 1 none none 5 Jan  1  2020 name" + (" -> target" if st_.S_ISLNK(case["mode"]) else "") + "\r\n").encode())


# ---------------------------------------------------------------- zones whose calendar skipped a day (date line moves)
DATELINE = {"Pacific/Kiritimati": (1995, 1996), "Pacific/Kwajalein": (1993, 1994), "Pacific/Apia": (2011, 2012), "UTC": (1995, 1996)}
INSIDE = (1.05, 1.2, 1.6, 3.0, 20.0)  # days away from the half-year boundary (the excluded window is one day wide)


def dateline_cases(tier):
    step = 7 * 3600 + 13 * 60 if tier == "quick" else 3600 + 7 * 60
    out = []
    for zone, (y0, y1) in DATELINE.items():
        for year in (y0, y1):
            for side in (-1, 1):
                out.append((zone, year, side, step))
    return out


def part_dateline(ctx):
    for zone, year, side, step in dateline_cases(ctx.tier)[ctx.shard::ctx.nshards]:
        set_zone(zone)
        t0 = int(time.mktime((year, 1, 1, 0, 0, 0, 0, 0, -1)))
        t1 = int(time.mktime((year + 1, 1, 1, 0, 0, 0, 0, 0, -1)))
        bad = None
        n = 0
        for now in range(t0, t1, step):
            for x in INSIDE:
                mtime = now - int(H + side * x * DAY)
                s = aioftp.Server.build_list_mtime(mtime, now)
                got = aioftp.Client.parse_ls_date(s, now=datetime.datetime.fromtimestamp(now))
                exp, recent = expected_ls(mtime, now)
                n += 1
                if got != exp and bad is None:
                    sym = "year" if got[4:] == exp[4:] else ("precision" if got[:8] == exp[:8] else "date")
                    bad = dict(zone=zone, now=now, mtime=mtime, days_from_half_year_boundary=side * x, ls_text=s, got=got, expected=exp,
                               now_local=time.strftime("%Y-%m-%d %H:%M", time.localtime(now)), kind="recent" if recent else "old", sym=sym)
        ctx.evaluations += n
        ctx.count(("dateline", zone, year, side), zone != "UTC", sample=dict(zone=zone, year=year, side="inside" if side < 0 else "outside",
                                                                             pairs=n, first_mismatch=bad),
                  classes=["dateline_" + zone])
        if bad:
            ctx.fail(f"C07/dateline/{zone}/{bad['kind']}/{bad['sym']}", dict(kind="dateline", case=[zone, year, side, step]), bad)


def replay_dateline(case):
    from vlib.runner import Ctx
    zone, year, side, step = case["case"]
    ctx = Ctx(PROPERTY, "dateline", "quick", 0, 0, 1)
    set_zone(zone)
    t0 = int(time.mktime((year, 1, 1, 0, 0, 0, 0, 0, -1)))
    t1 = int(time.mktime((year + 1, 1, 1, 0, 0, 0, 0, 0, -1)))
    for now in range(t0, t1, step):
        for x in INSIDE:
            mtime = now - int(H + side * x * DAY)
            s = aioftp.Server.build_list_mtime(mtime, now)
            got = aioftp.Client.parse_ls_date(s, now=datetime.datetime.fromtimestamp(now))
            exp, recent = expected_ls(mtime, now)
            if got != exp:
                sym = "year" if got[4:] == exp[4:] else ("precision" if got[:8] == exp[:8] else "date")
                raise Violation(f"C07/dateline/{zone}/{'recent' if recent else 'old'}/{sym}",
                                dict(zone=zone, now=now, mtime=mtime, ls_text=s, got=got, expected=exp))


def plan(tier):
    return [("plane", 8), ("e2e", 8), ("modes", 7), ("dateline", 8)]

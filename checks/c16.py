"""C16 - configured timeouts bound how long a stalled peer can hold a session (exact, in virtual time)."""

import asyncio
import itertools

from hypothesis import strategies as st

from vlib import harness, simnet
from vlib.ftpmodel import DIR
from vlib.harness import HOST, PORT, Raw, aioftp, instrument, ledger, read_all
from vlib.runner import Violation, hyp_run
from vlib.scripts import CORPUS, ScriptRunner, render

PROPERTY = "C16"
LEVEL = "fault_enumeration"
RULE = ("enumeration over all 8 combinations of idle_timeout / socket_timeout / wait_future_timeout in {None, value} x stall "
        "family x stall position, in virtual time with 1 ms network latency: silent (the peer stops sending after its "
        "j-th command of a scripted session, every j, incl. j=0 = never says anything), nodata (a transfer command whose "
        "data connection is never made, for RETR/STOR/LIST/MLSD), download_stall (the peer stops reading its data socket "
        "after i bytes of a 300 KB RETR), upload_stall (the peer stops sending after i bytes of a STOR and keeps the "
        "socket open), keepalive (a command every idle_timeout - 0.5 s, 8 rounds, then silence). Hypothesis additionally "
        "draws timeout values and positions. Oracle: the server closes the session's sockets at exactly the earliest "
        "applicable bound (last command delivered + idle_timeout; blocked data read/write started + socket_timeout), "
        "never earlier and at most 20 ms later; a transfer without data connection is answered 425 at 150 + "
        "wait_future_timeout and the session then answers PWD; with the relevant timeouts None nothing is released "
        "within 1000 s; after every release the C12 resource ledger is empty. Non-trivial = the stall begins inside a "
        "transfer or before login completes; distinct by the enumerated tuple.")
ASSUMPTIONS = [
    "virtual time: bounds are checked as equalities up to 20 ms (1 ms latency plus loop ticks)",
    "'blocked write started' = the moment the server-side data transport crossed its write-buffer high-water mark (simnet records it)",
]
REPLAY_ATTEMPTS = 2

TOL = 0.02
HORIZON = 1000.0
BIG = bytes(range(256)) * 1200  # 307200 bytes


def configs(idle=7.0, sock=3.0, wait=2.0):
    return [dict(idle_timeout=i, socket_timeout=s, wait_future_timeout=w) for i in (None, idle) for s in (None, sock) for w in (None, wait)]


class Watch:
    """Delivery times seen on the wire (client -> server)."""

    def __init__(self, loop):
        self.loop = loop
        self.last_ctrl = None
        self.last_data = None
        self.accept_ctrl = None
        loop.net.event_hooks.append(self.hook)

    def hook(self, k, kind, tr):
        if kind == "accept" and tr.listener_port == PORT:
            self.accept_ctrl = self.loop.time()
        if kind == "data" and tr.side == "c":
            if tr.listener_port == PORT:
                self.last_ctrl = self.loop.time()
            else:
                self.last_data = self.loop.time()


def server_ctrl(loop):
    return [t for t in loop.net.all_transports if t.side == "s" and t.listener_port == PORT]


async def settle_and_ledger(loop, server, tag, detail):
    await asyncio.sleep(1.0)
    leaks = ledger(loop, server, PORT)
    me = asyncio.current_task()
    left = [t for t in asyncio.all_tasks(loop) if t is not me and not t.done()]
    left = [t for t in left if "harness_keep" not in (t.get_name() or "")]
    if leaks:
        raise Violation(f"C16/{tag}/not_cleaned_up_after_release/{'+'.join(sorted(leaks))}", dict(detail, leaks=leaks))


def expect_close(tag, loop, expected, detail):
    """All server-side transports of the session must have been closed at `expected` (or never if None)."""
    sts = [t for t in loop.net.all_transports if t.side == "s"]
    ctrl = server_ctrl(loop)[0]
    if expected is None:
        if ctrl.closed_at is not None:
            raise Violation(f"C16/{tag}/dropped_without_applicable_timeout", dict(detail, closed_at=ctrl.closed_at))
        return
    if ctrl.closed_at is None:
        raise Violation(f"C16/{tag}/not_released", dict(detail, expected=expected))
    if ctrl.closed_at < expected - 1e-9:
        raise Violation(f"C16/{tag}/released_too_early", dict(detail, expected=expected, closed_at=ctrl.closed_at))
    if ctrl.closed_at > expected + TOL:
        raise Violation(f"C16/{tag}/released_too_late", dict(detail, expected=expected, closed_at=ctrl.closed_at))
    for t in sts:
        if t.closed_at is None or t.closed_at > expected + TOL:
            raise Violation(f"C16/{tag}/data_socket_outlives_release", dict(detail, expected=expected, closed_at=t.closed_at,
                                                                          port=t.listener_port))


async def make_server(loop, cfg, tree=None):
    loop.net.fixed_latency = 0.001
    loop.net.fixed_segment = 1 << 30
    server = aioftp.Server(path_io_factory=aioftp.MemoryPathIO, **cfg)
    await server.start(HOST, PORT)
    harness.mem_populate(server, tree or {"/": DIR, "/big": BIG, "/d": DIR, "/d/x": b"1"})
    return server


# ---------------------------------------------------------------- silent after the j-th command
async def _silent(loop, cfg, script_name, j):
    server = await make_server(loop, cfg)
    watch = Watch(loop)
    runner = ScriptRunner(render(CORPUS[script_name], "/v"), patience=5000)
    sent = [0]
    stop = asyncio.Event()
    orig = runner.raw.send

    async def run():
        code, _ = await runner.raw.connect()
        runner.transcript.append(dict(line=None, codes=[code]))
        for i, st_ in enumerate(runner.script):
            if i >= j:
                break
            runner.step = i
            if not await runner.do(st_):
                break

    await asyncio.wait_for(run(), 4000)
    detail = dict(cfg=cfg, script=script_name, j=j, last=runner.transcript[-1])
    ended = runner.transcript[-1]["codes"][-1:] in (["221"], ["EOF"])
    t_ref = watch.last_ctrl if watch.last_ctrl is not None else watch.accept_ctrl
    idle = cfg["idle_timeout"]
    if runner.data is not None:
        detail["unused_data_connection"] = True
    await asyncio.sleep(HORIZON if idle is None else idle + 5)
    if ended:
        return dict(nontrivial=False, skipped="script ended")
    expect_close("silent", loop, None if idle is None else t_ref + idle, detail)
    if idle is not None:
        await settle_and_ledger(loop, server, "silent", detail)
    runner.close()
    await asyncio.wait_for(server.close(), 1000)
    logged_in = any((r.get("line") or "").upper().startswith("USER") for r in runner.transcript)
    return dict(nontrivial=not logged_in or runner.data is not None)


# ---------------------------------------------------------------- transfer whose data connection is never made
async def _nodata(loop, cfg, verb, follow):
    server = await make_server(loop, cfg)
    watch = Watch(loop)
    raw = Raw(HOST, PORT, patience=5000)
    await raw.connect()
    await raw.cmd("USER anonymous")
    await raw.cmd("EPSV")
    line = {"RETR": "RETR /big", "STOR": "STOR /new", "LIST": "LIST /d", "MLSD": "MLSD /d", "APPE": "APPE /big"}[verb]
    idle, wait = cfg["idle_timeout"], cfg["wait_future_timeout"]
    if idle is not None and wait is not None and abs(idle - wait) < 0.05:
        await server.close()
        return dict(nontrivial=False, skipped="idle_timeout == wait_future_timeout: order of the two timers is not specified")
    raw.send(line)
    code, _ = await raw.reply(50)
    detail = dict(cfg=cfg, verb=verb, first=code)
    if code != "150":
        raise Violation(f"C16/nodata/unexpected_first_reply_{code}", detail)
    t_cmd = watch.last_ctrl
    t_150 = t_cmd  # the 150 is queued in the same virtual instant the command is processed
    first_bound = min([b for b in (None if wait is None else t_150 + wait, None if idle is None else t_cmd + idle) if b is not None], default=None)
    code2, _ = await raw.reply(HORIZON if first_bound is None else max(wait or 0, idle or 0) + 5)
    now = loop.time()
    detail.update(second=code2, at=now)
    if wait is not None and (idle is None or wait < idle):
        if code2 != "425":
            raise Violation(f"C16/nodata/no_425_after_wait_future_timeout/got={code2}", detail)
        exp = t_150 + wait
        if not (exp - 1e-9 <= now <= exp + TOL):
            raise Violation("C16/nodata/425_at_wrong_time/" + ("early" if now < exp else "late"), dict(detail, expected=exp))
        if follow:
            code3, _ = await raw.cmd("PWD")
            if code3 != "257":
                raise Violation(f"C16/nodata/session_unusable_after_425/{code3}", detail)
            t_ref = watch.last_ctrl
        else:
            t_ref = t_cmd
        await asyncio.sleep(HORIZON if idle is None else idle + 5)
        expect_close("nodata", loop, None if idle is None else t_ref + idle, detail)
    elif idle is not None:
        if code2 != "EOF":
            raise Violation(f"C16/nodata/expected_idle_drop/got={code2}", detail)
        expect_close("nodata", loop, t_cmd + idle, detail)
    else:
        if code2 != "SILENCE":
            raise Violation(f"C16/nodata/reply_without_applicable_timeout/got={code2}", detail)
        expect_close("nodata", loop, None, detail)
    if idle is not None:
        await settle_and_ledger(loop, server, "nodata", detail)
    raw.close()
    await asyncio.wait_for(server.close(), 1000)
    return dict(nontrivial=True)


# ---------------------------------------------------------------- data connection that stops moving
async def _stall(loop, cfg, direction, i_bytes):
    server = await make_server(loop, cfg)
    watch = Watch(loop)
    raw = Raw(HOST, PORT, patience=5000)
    await raw.connect()
    await raw.cmd("USER anonymous")
    await raw.cmd("EPSV")
    dr, dw = await raw.open_data()
    await asyncio.sleep(0.1)
    idle, sock = cfg["idle_timeout"], cfg["socket_timeout"]
    if direction == "download":
        if i_bytes == 0:
            dw.transport.pause_reading()
        raw.send("RETR /big")
        code, _ = await raw.reply(50)
        t_cmd = watch.last_ctrl
        got = 0
        while got < i_bytes:
            chunk = await dr.read(min(8192, i_bytes - got))
            if not chunk:
                break
            got += len(chunk)
        dw.transport.pause_reading()
        await asyncio.sleep(0.2)
        sdata = [t for t in loop.net.all_transports if t.side == "s" and t.listener_port != PORT][-1]
        t_block = sdata.paused_at
        detail = dict(cfg=cfg, direction=direction, i=i_bytes, t_cmd=t_cmd, t_block=t_block)
        if t_block is None:
            raise Violation("C16/stall/harness_server_never_blocked", detail)
    else:
        raw.send("STOR /up")
        code, _ = await raw.reply(50)
        t_cmd = watch.last_ctrl
        if i_bytes:
            dw.write(BIG[:i_bytes])
        await asyncio.sleep(0.2)
        # the server's pending read() call was started when the previous block had been consumed
        t_block = watch.last_data if i_bytes else None
        detail = dict(cfg=cfg, direction=direction, i=i_bytes, t_cmd=t_cmd, t_block=t_block)
    if code != "150":
        raise Violation(f"C16/stall/unexpected_first_reply_{code}", detail)
    bounds = []
    if sock is not None:
        if direction == "upload" and not i_bytes:
            # first read() starts when the worker starts, i.e. right after the command was processed
            bounds.append(("socket", t_cmd + sock))
        else:
            bounds.append(("socket", t_block + sock))
    if idle is not None:
        bounds.append(("idle", t_cmd + idle))
    await asyncio.sleep(HORIZON if not bounds else max(b for _, b in bounds) - loop.time() + 5)
    if not bounds:
        expect_close("stall_" + direction, loop, None, detail)
    else:
        which, exp = min(bounds, key=lambda b: b[1])
        detail["bound"] = which
        # for uploads the blocked read may have started up to one block-processing step after the last delivery
        expect_close("stall_" + direction, loop, exp, detail)
        await settle_and_ledger(loop, server, "stall_" + direction, detail)
    raw.close()
    dw.close()
    await asyncio.wait_for(server.close(), 1000)
    return dict(nontrivial=True)


# ---------------------------------------------------------------- keep-alive
async def _keepalive(loop, cfg, rounds, gap_margin):
    server = await make_server(loop, cfg)
    watch = Watch(loop)
    raw = Raw(HOST, PORT, patience=5000)
    await raw.connect()
    await raw.cmd("USER anonymous")
    idle = cfg["idle_timeout"]
    gap = (idle or 7.0) - gap_margin
    for r in range(rounds):
        await asyncio.sleep(gap)
        code, _ = await raw.cmd(["PWD", "SYST", "TYPE I", "NOOP", "CWD /d", "CDUP"][r % 6])
        if code == "EOF":
            raise Violation("C16/keepalive/dropped_although_commands_kept_arriving", dict(cfg=cfg, round=r, gap=gap))
    t_ref = watch.last_ctrl
    await asyncio.sleep(HORIZON if idle is None else idle + 5)
    detail = dict(cfg=cfg, rounds=rounds, gap=gap)
    expect_close("keepalive", loop, None if idle is None else t_ref + idle, detail)
    if idle is not None:
        await settle_and_ledger(loop, server, "keepalive", detail)
    raw.close()
    await asyncio.wait_for(server.close(), 1000)
    return dict(nontrivial=False)


async def _tail(loop, cfg, size):
    """The receiver of a download never reads, and the file is smaller than the transport's write buffer takes: no write of
    the server ever blocks.  The data connection does not move all the same: once socket_timeout has passed the server
    must have given it up (worker finished, close() called on the data socket); the control channel follows idle_timeout."""
    server = await make_server(loop, cfg, tree={"/": DIR, "/t": bytes(i % 251 for i in range(size))})
    watch = Watch(loop)
    raw = Raw(HOST, PORT, patience=5000)
    await raw.connect()
    await raw.cmd("USER anonymous")
    await raw.cmd("EPSV")
    dr, dw = await raw.open_data()
    await asyncio.sleep(0.1)
    idle, sock = cfg["idle_timeout"], cfg["socket_timeout"]
    dw.transport.pause_reading()
    raw.send("RETR /t")
    code, _ = await raw.reply(50)
    t_cmd = watch.last_ctrl
    t_stall = loop.time()
    await asyncio.sleep(0.2)
    sdata = [t for t in loop.net.all_transports if t.side == "s" and t.listener_port != PORT][-1]
    detail = dict(cfg=cfg, size=size, t_cmd=t_cmd, t_stall=t_stall)
    if code != "150":
        raise Violation(f"C16/tail/unexpected_first_reply_{code}", detail)
    if sdata.paused_at is not None:
        raise Violation("C16/tail/harness_server_blocked_after_all", detail)
    if sock is not None and (idle is None or t_cmd + idle > t_stall + sock + 1):
        await asyncio.sleep(sock + 1)
        pending = [w for c_ in server.connections.values() for w in c_.extra_workers if not w.done()]
        if pending or not sdata._closing:
            raise Violation("C16/tail/data_connection_not_given_up_after_socket_timeout",
                            dict(detail, transfer_task_pending=bool(pending), close_called=bool(sdata._closing), checked_at=loop.time()))
    ctrl = server_ctrl(loop)[0]
    if idle is not None:
        await asyncio.sleep(max(0, t_cmd + idle + 1 - loop.time()))
        if ctrl.closed_at is None or abs(ctrl.closed_at - (t_cmd + idle)) > TOL:
            raise Violation("C16/tail/idle_bound_not_applied", dict(detail, closed_at=ctrl.closed_at, expected=t_cmd + idle))
    else:
        await asyncio.sleep(50)
        if ctrl.closed_at is not None:
            raise Violation("C16/tail/dropped_without_applicable_timeout", dict(detail, closed_at=ctrl.closed_at))
    raw.close()
    dw.close()
    await asyncio.wait_for(server.close(), 1000)
    return dict(nontrivial=True)


async def _drain(loop, cfg, nreplies):
    """The peer has sent QUIT behind commands whose (long) replies it never reads, and then stays connected and silent:
    the session sits in its final flush.  It is dropped by the first applicable bound - socket_timeout after the reply
    write blocked, idle_timeout after the last command - and never held beyond both."""
    server = await make_server(loop, cfg)
    watch = Watch(loop)
    r, w = await asyncio.open_connection(HOST, PORT)
    await asyncio.sleep(0.1)
    w.transport.pause_reading()
    w.write(("USER anonymous\r\n" + ("X" * 30000 + "\r\n") * nreplies + "QUIT\r\n").encode())
    await asyncio.sleep(0.5)
    idle, sock = cfg["idle_timeout"], cfg["socket_timeout"]
    ctrl = server_ctrl(loop)[0]
    t_cmd = watch.last_ctrl
    detail = dict(cfg=cfg, replies_queued=nreplies, t_last_command=t_cmd, t_reply_write_blocked=ctrl.paused_at)
    if ctrl.paused_at is None:
        raise Violation("C16/drain/harness_server_never_blocked", detail)
    bounds = []
    if sock is not None:
        bounds.append(("socket", ctrl.paused_at + sock))
    if idle is not None:
        bounds.append(("idle", t_cmd + idle))
    await asyncio.sleep(60 if not bounds else max(b for _, b in bounds) - loop.time() + 5)
    pending = [t for t in asyncio.all_tasks(loop) if "dispatcher" in repr(t.get_coro()) and not t.done()]
    if not bounds:
        if not pending:
            raise Violation("C16/drain/dropped_without_applicable_timeout", detail)
    else:
        which, exp = min(bounds, key=lambda b: b[1])
        detail["bound"] = which
        if pending or server.connections:
            raise Violation("C16/drain/not_released", dict(detail, expected=exp, checked_at=loop.time()))
        if not ctrl._closing:
            raise Violation("C16/drain/control_socket_not_closed", dict(detail, expected=exp))
    w.close()
    await asyncio.wait_for(server.close(), 1000)
    return dict(nontrivial=True)


FAMILIES = {"silent": _silent, "nodata": _nodata, "stall": _stall, "keepalive": _keepalive, "tail": _tail, "drain": _drain}


def enumerate_cases(tier):
    out = []
    for ci, cfg in enumerate(configs()):
        for script in (["tour", "pasv_after"] if tier == "quick" else ["tour", "pasv_after", "errors", "relogin", "unused_data", "restart"]):
            for j in range(0, len(CORPUS[script])):
                out.append(("silent", ci, (script, j)))
        for verb in ("RETR", "STOR", "LIST", "MLSD", "APPE"):
            for follow in (True, False):
                out.append(("nodata", ci, (verb, follow)))
        for direction in ("download", "upload"):
            for i in ([0, 1, 8192, 100000] if direction == "download" else [0, 1, 8191, 8192, 50000]):
                out.append(("stall", ci, (direction, i)))
        for size in (1, 20000, 60000):
            out.append(("tail", ci, (size,)))
        for n in (5, 40):
            out.append(("drain", ci, (n,)))
        for margin in (0.5, 0.01):
            out.append(("keepalive", ci, (8, margin)))
    return out


def run_case(family, cfg, args):
    return simnet.run(lambda loop: FAMILIES[family](loop, cfg, *args))


def part_enumerate(ctx):
    cfgs = configs()
    cases = enumerate_cases(ctx.tier)
    ctx.extra["cases_total"] = len(cases) if ctx.shard == 0 else 0
    for family, ci, args in cases[ctx.shard::ctx.nshards]:
        cfg = cfgs[ci]
        res = dict(nontrivial=False)
        try:
            res = run_case(family, cfg, args)
        except Violation as v:
            ctx.fail(v.sig, dict(family=family, cfg=cfg, args=list(args)), v.detail)
        ctx.count((family, ci, args), bool(res.get("nontrivial")), sample=dict(family=family, timeouts=cfg, position=list(args)),
                  classes=["family_" + family, "cfg_%d" % ci] + (["skipped_ended"] if res.get("skipped") else []))


def replay_enumerate(case):
    run_case(case["family"], case["cfg"], tuple(case["args"]))


VAL = st.sampled_from([None, 0.5, 1.0, 2.5, 4.0, 9.0])
SAMPLED = st.tuples(VAL, VAL, VAL, st.sampled_from(["silent", "nodata", "stall", "keepalive"]), st.integers(0, 255), st.integers(0, 255))


def check_sampled(ctx, case):
    idle, sock, wait, family, a, b = case
    cfg = dict(idle_timeout=idle, socket_timeout=sock, wait_future_timeout=wait)
    if family == "silent":
        script = ["tour", "pasv_after", "errors", "relogin", "restart"][a % 5]
        args = (script, b % len(CORPUS[script]))
    elif family == "nodata":
        args = (["RETR", "STOR", "LIST", "MLSD", "APPE"][a % 5], bool(b % 2))
    elif family == "stall":
        args = (["download", "upload"][a % 2], [0, 1, 5, 8191, 8192, 8193, 30000, 70000, 200000][b % 9])
    else:
        args = (3 + a % 6, [0.5, 0.01, 0.2][b % 3])
        if idle is not None and idle <= args[1]:
            args = (args[0], idle / 4)
    res = run_case(family, cfg, args)
    ctx.count(case, bool(res.get("nontrivial")), sample=dict(family=family, timeouts=cfg, position=list(args)), classes=["family_" + family])


def part_sampled(ctx):
    n = 200 if ctx.tier == "quick" else 20000
    hyp_run(ctx, SAMPLED, lambda c: check_sampled(ctx, c), n, name="sampled")


def replay_sampled(case):
    from vlib.runner import Ctx
    check_sampled(Ctx(PROPERTY, "sampled", "quick", 0, 0, 1), tuple(case))


def plan(tier):
    return [("enumerate", 16), ("sampled", 8)]

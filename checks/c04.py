"""C04 - read/write permissions follow the nearest-ancestor rule on the resolved path."""

import asyncio

from hypothesis import strategies as st

from vlib import harness, simnet, walk
from vlib.ftpmodel import DIR, nearest_permission, resolve
from vlib.harness import aioftp
from vlib.runner import Violation, hyp_run

PROPERTY = "C04"
LEVEL = "exploration"
RULE = ("lookup: Hypothesis permission tables (0-7 entries over a 3-level path universe, every r/w combination, "
        "duplicates, unordered, redundant-slash spellings) x request paths -> real User.get_permissions vs a "
        "longest-prefix oracle on segment lists (where duplicates of the nearest entry disagree either is accepted). "
        "wire: generated table + abstract program (file-operation heavy profile; arguments are aliases of model-tree "
        "paths: relative forms, '..' detours, doubled slashes, '/../..' prefixes, from generated working directories) run "
        "against the real server on simnet; oracle = reference model with the same table (550 exactly when the entry "
        "for the *resolved* path denies the class, otherwise the model's normal outcome), backend tree compared after "
        "every command, PWD probed after every CWD/CDUP. Non-trivial = a denial (550 by permission) reached through an "
        "alias spelling, or a table in which a child entry overrides its parent in the opposite direction; distinct by "
        "hash of (table, history).")
ASSUMPTIONS = [
    "permission entries are absolute POSIX paths (as documented); where two entries for the same nearest path disagree "
    "the property does not say which wins: the lookup oracle accepts either, the wire check stops judging the history",
    "reference model vlib/ftpmodel.py for everything that is not a permission decision",
]
REPLAY_ATTEMPTS = 2

SEG = ["a", "b", "c", "f", "g"]
UNIVERSE = ["/"] + ["/" + x for x in SEG] + ["/%s/%s" % (x, y) for x in "abc" for y in "bfg"] + ["/a/b/f", "/a/b/g", "/c/g/f"]
ENTRY = st.tuples(st.sampled_from(UNIVERSE), st.booleans(), st.booleans())
TABLE = st.lists(ENTRY, max_size=7)
TREE = {"/": DIR, "/a": DIR, "/a/b": DIR, "/a/b/f": b"deep file", "/a/f": b"file in a", "/c": DIR, "/c/g": DIR,
        "/c/g/f": b"x" * 9, "/f": b"root file", "/b": DIR}

SPELL = st.sampled_from(["{p}", "{p}/", "/{q}", "/{q}/.", "{p}//", "/./{q}"])  # no leading "//": POSIX keeps it distinct
REQ = st.lists(st.sampled_from(SEG + ["x", "..", "."]), max_size=5)


def _loop():
    global _lp
    try:
        return _lp
    except NameError:
        _lp = asyncio.new_event_loop()
        return _lp


def check_lookup(ctx, case):
    table, spells, req = case
    perms = []
    for (p, r, w), sp in zip(table, spells + ["{p}"] * len(table)):
        spelled = sp.format(p=p, q=p.lstrip("/")) if p != "/" else "/"
        perms.append(aioftp.Permission(spelled, readable=r, writable=w))
    user = aioftp.User(permissions=perms) if perms else aioftp.User()
    path = resolve("/", "/".join(req))
    got = _loop().run_until_complete(user.get_permissions(path))
    cands = nearest_permission(table, path)
    if not table:
        cands = {(True, True)}
    depth = {}
    for p, r, w in table:
        depth.setdefault(p, set()).add((r, w))
    nt = len(table) >= 2 and any(q != p and q.startswith(p.rstrip("/") + "/") and depth[p] != depth[q] for p in depth for q in depth)
    ctx.count(case, nt, sample=dict(table=table, request=path, answer=(got.readable, got.writable)),
              classes=["entries_%d" % len(table)] + (["override"] if nt else []) + (["ambiguous"] if len(cands) > 1 else []))
    if (got.readable, got.writable) not in cands:
        raise Violation("C04/lookup/not_nearest_ancestor",
                        dict(table=table, request=path, got=(got.readable, got.writable), allowed=sorted(cands)))


def part_lookup(ctx):
    n = 1500 if ctx.tier == "quick" else 60000
    strat = st.tuples(TABLE, st.lists(SPELL, min_size=7, max_size=7), REQ)
    hyp_run(ctx, strat, lambda c: check_lookup(ctx, c), n, name="lookup")


def replay_lookup(case):
    from vlib.runner import Ctx
    check_lookup(Ctx(PROPERTY, "lookup", "quick", 0, 0, 1), tuple(case))


# ---------------------------------------------------------------- wire level
STEP = st.tuples(*[st.integers(0, 255)] * 5)
CASE = st.tuples(TABLE, st.lists(STEP, min_size=6, max_size=36), st.sampled_from(["mem", "mem", "fs"]),
                 st.lists(st.integers(0, 255), max_size=16))
READ = {"CWD", "CDUP", "LIST", "MLSD", "MLST", "RETR"}
WRITE = {"MKD", "RMD", "DELE", "RNFR", "RNTO", "STOR", "APPE"}


def check_wire(ctx, case):
    table, program, backend, tape = case
    users = [dict(login=None, password=None, home="/", perms=[tuple(e) for e in table] or [("/", True, True)]),
             # a second account with the opposite rights on the same entries: what one account may do under a path says
             # nothing about the other, also when both are used on one control connection
             dict(login="mirror", password="pw", home="/", perms=[(p_, not r_, not w_) for p_, r_, w_ in (tuple(e) for e in table)] or [("/", True, False)])]
    # log in first with an ordinary generated step replaced by a forced USER
    program = [(0, 0, 0, 0, 0)] + list(program)
    history = walk.concretise(program + ["pwd"], users=users, tree=TREE, profile="perm", pwd_after=("CWD", "CDUP"),
                              user_names=["anonymous", "anonymous", "anonymous", "mirror"], passwords=["pw", "pw", "bad"])
    recs = []
    stats = dict(denied=0, denied_alias=0)

    def after_step(info):
        rec, m = info["rec"], info["model"]
        V = rec["cmd"].split(" ")[0].upper()
        if V in READ | WRITE and rec["got"] == ["550"] and rec.get("text") == "permission denied":
            stats["denied"] += 1
            arg = rec["cmd"].partition(" ")[2]
            if arg and (not arg.startswith("/") or ".." in arg or "//" in arg or arg.endswith("/") or "/./" in arg + "/"):
                stats["denied_alias"] += 1

    async def go(loop):
        with harness.TempDirs() as td:
            tmp = td.new() if backend != "mem" else None
            out = await walk.execute(loop, history, backend=backend, tmp=tmp, users=users, tree=TREE, records=recs,
                                     hooks=dict(after_step=after_step))
            await walk.finish(*out[2:])

    try:
        simnet.run(go, tape)
    finally:
        depth = {}
        for p, r, w in table:
            depth.setdefault(p, set()).add((r, w))
        override = any(q != p and q.startswith(p.rstrip("/") + "/") and depth[p] != depth[q] for p in depth for q in depth)
        skipped = [h.get("why") for h in history if not h["judge"]]
        ctx.count([table, history], stats["denied_alias"] > 0 or override,
                  sample=dict(table=table, backend=backend, history=[(r["cmd"], r.get("got")) for r in recs]),
                  classes=["be_" + backend] + (["override"] if override else []) + (["denied"] if stats["denied"] else [])
                  + (["denied_via_alias"] if stats["denied_alias"] else []) + ["skipped_" + str(s) for s in skipped])
        ctx.classes["permission_denials"] += stats["denied"]
        ctx.classes["steps"] += len(recs)


def part_wire(ctx):
    n = 700 if ctx.tier == "quick" else 5000
    hyp_run(ctx, CASE, lambda c: check_wire(ctx, c), n, name="wire")


def replay_wire(case):
    from vlib.runner import Ctx
    check_wire(Ctx(PROPERTY, "wire", "quick", 0, 0, 1), tuple(case))


# ---------------------------------------------------------------- going up and sideways: the entry of the *destination* decides
DIRS = ["/a", "/a/b", "/c", "/c/g", "/b"]
MOVE = st.sampled_from(["CDUP", "CDUP", "CWD ..", "CWD ../..", "CWD .", "CWD b", "CWD g", "CWD ../b", "CWD ../c", "CWD /a/b", "CWD /c/g",
                        "CWD /a/b/..", "PWD", "MLST .", "MLST ..", "MKD n", "LIST-less:MLST ../f"])
UPDOWN = st.tuples(TABLE, st.sampled_from(DIRS), st.lists(MOVE, min_size=2, max_size=7), st.sampled_from(["mem", "fs"]))


def check_updown(ctx, case):
    """Directed histories: enter a directory (table made permissive for that first step by construction of the start),
    then move with CDUP / 'CWD ..' / relative CWD: every move is authorised by the entry governing its destination."""
    table, start, moves, backend = case
    users = [dict(login=None, password=None, home=start, perms=[tuple(e) for e in table] or [("/", True, True)])]
    lines = ["USER anonymous", "PWD"]
    for mv in moves:
        mv = mv.split(":", 1)[-1]
        lines.append(mv)
        if mv.split(" ")[0] in ("CWD", "CDUP"):
            lines.append("PWD")
    history = walk.from_lines(lines, users=users, tree=TREE)
    recs = []

    async def go(loop):
        with harness.TempDirs() as td:
            tmp = td.new() if backend != "mem" else None
            out = await walk.execute(loop, history, backend=backend, tmp=tmp, users=users, tree=TREE, records=recs)
            await walk.finish(*out[2:])

    try:
        simnet.run(go)
    finally:
        denied = sum(1 for r in recs if r.get("got") == ["550"] and r["cmd"].split(" ")[0] in ("CDUP", "CWD"))
        ups = sum(1 for r in recs if r["cmd"] in ("CDUP", "CWD ..", "CWD ../.."))
        ctx.count([table, start, moves, backend], denied > 0 and ups > 0,
                  sample=dict(table=table, home=start, backend=backend, history=[(r["cmd"], r.get("got")) for r in recs]),
                  classes=["updown_be_" + backend] + (["updown_denied_move"] if denied else [])
                  + ["updown_" + r["cmd"].split(" ")[0] + "_" + (r.get("got") or ["?"])[0] for r in recs if r["cmd"].split(" ")[0] in ("CDUP", "CWD")])


def part_updown(ctx):
    n = 250 if ctx.tier == "quick" else 4000
    hyp_run(ctx, UPDOWN, lambda c: check_updown(ctx, c), n, name="updown")


def replay_updown(case):
    from vlib.runner import Ctx
    table, start, moves, backend = case
    check_updown(Ctx(PROPERTY, "updown", "quick", 0, 0, 1), ([tuple(e) for e in table], start, list(moves), backend))


def plan(tier):
    return [("lookup", 4), ("wire", 12)]


# ---------------------------------------------------------------- the entry that authorised a transfer stays the one that applies
def check_window(ctx, case):
    """Commands sent between the 150 and the data connection (CWD into a subtree governed by another permission entry,
    USER ...) must not change which location - hence which permission entry - a transfer operates under.  Shares the
    scenario with C02's `window` part (tree with an unreadable / unwritable /vault next to a public /pub)."""
    from checks import c02
    try:
        c02.check_window(ctx, case)
    except Violation as v:
        raise Violation(v.sig.replace("C02/window/", "C04/window/"), v.detail)


def part_window(ctx):
    from checks import c02
    n = 150 if ctx.tier == "quick" else 4000
    hyp_run(ctx, c02.WINDOW, lambda c: check_window(ctx, c), n, name="window")


def replay_window(case):
    from vlib.runner import Ctx
    check_window(Ctx(PROPERTY, "window", "quick", 0, 0, 1), tuple(case))


def plan(tier):  # noqa: F811
    return [("lookup", 3), ("wire", 8), ("window", 2), ("updown", 3)]

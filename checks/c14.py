"""C14 - ABOR at any moment stops the transfer, is answered, and keeps the session usable."""

import asyncio

from hypothesis import strategies as st

from vlib import harness, simnet
from vlib.ftpmodel import DIR
from vlib.harness import HOST, PORT, Raw, aioftp, instrument, read_all
from vlib.runner import Violation, hyp_run

PROPERTY = "C14"
LEVEL = "fault_enumeration"
RULE = ("grid: enumeration of transfer kind {RETR, STOR, APPE, LIST, MLSD} x size (0, 1, b, 3b+1 bytes / 0-3 entries; "
        "block b=4, backend awaits 1 virtual second per block) x data connection {made before the command, made 1.5 s "
        "late, never} x abort position {0.5 s before the command, pipelined in the same segment, 0.5 ms after it, then "
        "every 0.5 s up to after the completion reply, and no transfer at all} x follow-up {PWD, a complete transfer, a "
        "second ABOR, QUIT}. sweep: iteration-indexed sweep of the ABOR arrival (n = 0..N loop iterations after the "
        "transfer command) on a backend that awaits once per block with zero delay. tapes: Hypothesis-sampled abort "
        "times, sizes, delays and network tapes. Oracle: replies after the ABOR are one of the allowed sequences "
        "(150,426,226 | 150,done,226 | 226,150,done | with 425 when no data connection is made), never silence or a "
        "closed session; the data connection is closed by the server; received / stored bytes are a prefix; the "
        "follow-up behaves normally. Non-trivial = the ABOR arrives while a transfer task exists; distinct by the "
        "enumerated tuple. "
        "later: enumerated (aborted kind) x (later kind) x (data connection closed / reset half way / run to its end): one final reply, PWD next, silence; non-trivial = the later transfer lost its data connection.")
ASSUMPTIONS = [
    "simnet; backend delays are virtual; wait_future_timeout=3",
    "exhaustive with respect to the enumerated grid only",
]
REPLAY_ATTEMPTS = 3

BLOCK = 4
KINDS = ["RETR", "STOR", "APPE", "LIST", "MLSD"]
OLD = b"old-content:"


def done_code(kind):
    return "200" if kind == "MLSD" else "226"


async def _scenario(loop, kind, size, connect, abort, followup, *, delay=1.0, tape_mode=False, iter_abort=None,
                    info=None):
    ctl = harness.Ctl()
    ctl.record = False
    if delay is not None:
        ctl.delays = {"read": delay, "write": delay, "list.next": delay, "_open": delay, "close": delay / 4,
                      # the checks made before the 150 suspend too: an ABOR right behind the command meets a handler in progress
                      "exists": delay / 8, "is_file": delay / 8, "is_dir": delay / 8}
    fac = instrument(aioftp.MemoryPathIO, ctl)
    server = aioftp.Server(path_io_factory=fac, block_size=BLOCK, wait_future_timeout=3)
    await server.start(HOST, PORT)
    content = bytes((i * 5 + 1) % 251 for i in range(size))
    tree = {"/": DIR, "/f": content, "/g": OLD, "/d": DIR}
    for i in range(size if kind in ("LIST", "MLSD") else 0):
        tree["/d/e%d" % i] = b"x"
    harness.mem_populate(server, tree)
    raw = Raw(HOST, PORT, patience=9.0)
    await raw.connect()
    await raw.cmd("USER anonymous")
    await raw.cmd("EPSV")
    target = {"RETR": "RETR /f", "STOR": "STOR /n", "APPE": "APPE /g", "LIST": "LIST /d", "MLSD": "MLSD /d",
              "NONE": None}[kind]
    got = bytearray()
    data = {"eof": None, "sent": 0}
    t0 = loop.time()

    async def datac(at):
        if at is None:
            return
        if at > 0:
            await asyncio.sleep(at)
        try:
            dr, dw = await raw.open_data()
        except OSError:
            data["refused"] = True
            return
        data["w"] = dw
        data["t_connect"] = loop.time()
        try:
            if kind in ("STOR", "APPE"):
                for i in range(0, size, BLOCK):
                    dw.write(content[i:i + BLOCK])
                    data["sent"] = i + BLOCK
                    await asyncio.sleep(0.5)
                dw.close()
                await read_all(dr, 60)
                data["eof"] = True
            else:
                buf, eof = await read_all(dr, 60)
                got.extend(buf)
                data["eof"] = eof
                dw.close()
        except (ConnectionError, OSError):
            data["eof"] = True

    dtask = None
    if connect == "before" and kind != "NONE":
        dtask = asyncio.ensure_future(datac(0))
        await asyncio.sleep(0.2)
    workers_at_abort = []

    def note_workers():
        data.setdefault("t_abort", loop.time())
        n = 0
        for conn in server.connections.values():
            n += len([w for w in conn.extra_workers if not w.done()])
        workers_at_abort.append(n)

    async def abor_at(t):
        await asyncio.sleep(t)
        note_workers()
        raw.send("ABOR")

    if kind == "NONE":
        note_workers()
        raw.send("ABOR")
    elif iter_abort is not None:
        raw.send(target)
        left = [iter_abort]

        def tick():
            if left[0] <= 0:
                note_workers()
                raw.send("ABOR")
                return
            left[0] -= 1
            loop.call_soon(tick)

        loop.call_soon(tick)
    elif abort < 0:
        note_workers()
        raw.send("ABOR")
        await asyncio.sleep(-abort)
        raw.send(target)
    elif abort == 0:
        note_workers()
        raw.send((target + "\r\nABOR\r\n").encode())
    else:
        raw.send(target)
        asyncio.ensure_future(abor_at(abort))
    if connect == "late":
        dtask = asyncio.ensure_future(datac(1.5))
    replies = []
    while True:
        code, lines = await raw.reply(9.0)
        if code == "SILENCE" and ("t_abort" not in data or loop.time() - data["t_abort"] < 9.0):
            continue  # the ABOR has not been sent yet / its answer has not had its 9 seconds
        if code in ("SILENCE", "EOF", "GARBAGE"):
            end = code
            break
        replies.append(code)
    if dtask is not None:
        try:
            await asyncio.wait_for(dtask, 100)
        except asyncio.TimeoutError:
            data["eof"] = False
    stored = harness.mem_tree(server)
    # a data connection the server accepts only after the client has sent ABOR is a new, unused one: not this
    # transfer's (it stays attached to the session for the next transfer, as after any early connect)
    t_abort = data.get("t_abort")
    dws = data.get("w")
    acc = dws.transport.accepted_at if dws is not None else None
    connected_after_abort = t_abort is not None and dws is not None and (acc is None or acc >= t_abort)
    open_data = [t for t in loop.net.open_transports if t.side == "s" and t.listener_port != PORT and not t._closing
                 and not connected_after_abort]
    if connected_after_abort and data["eof"] is False:
        data["eof"] = None
    out = dict(replies=replies, end=end, got=bytes(got), eof=data["eof"], stored_n=stored.get("/n"), stored_g=stored.get("/g"),
               server_data_open=len(open_data), workers_at_abort=workers_at_abort[0] if workers_at_abort else None,
               content=content)
    if info is not None:
        info.update(out)
    # follow-up on the same session
    fu = None
    if end != "EOF":
        if "w" in data:
            data["w"].close()
        if followup == "PWD":
            fu = [(await raw.cmd("PWD"))[0]]
        elif followup == "ABOR":
            fu = [(await raw.cmd("ABOR"))[0]]
        elif followup == "QUIT":
            fu = [(await raw.cmd("QUIT"))[0]]
        else:  # a complete transfer of another kind
            ctl.delays = {}
            # *_SAME: on the listener the session already has, without a new EPSV (allowed once the server has closed and
            # forgotten the aborted transfer's data connection; not attempted while an unused one may still be registered)
            same = (followup.endswith("_SAME") and out["server_data_open"] == 0 and raw.passive_port is not None
                    and connect != "late" and not connected_after_abort)  # late: the client's connection may have arrived after the ABOR, unused and registered
            followup = followup.split("_")[0]
            if same:
                c1 = "229"
                fu = ["same"]
            else:
                c1, _ = await raw.cmd("EPSV")
                fu = [c1]
            if c1 == "229":
                dr, dw = await raw.open_data()
                await asyncio.sleep(0.2)
                c2, _ = await raw.cmd("RETR /g" if followup == "RETR" else "STOR /after")
                fu.append(c2)
                if c2 == "150":
                    if followup == "RETR":
                        buf, eof = await read_all(dr, 30)
                        fu.append(("data_ok", buf == stored.get("/g") and eof))
                        dw.close()
                    else:
                        dw.write(b"after-abort")
                        dw.close()
                    c3, _ = await raw.reply()
                    fu.append(c3)
                    if followup != "RETR":
                        fu.append(("stored_ok", harness.mem_tree(server).get("/after") == b"after-abort"))
    out["followup"] = fu
    raw.close()
    await asyncio.wait_for(server.close(), 1000)
    return out


def judge(kind, size, connect, abort, followup, out, tag):
    """Raises Violation.  Signature = phase of the transfer at ABOR time + symptom."""
    D = done_code(kind)
    r = tuple(out["replies"])
    phase = "no_transfer" if kind == "NONE" else (
        "abor_before_command" if abort is not None and abort < 0 else
        ("awaiting_data_connection" if (connect == "never" or (connect == "late" and (abort or 0) < 1.5)) and out["workers_at_abort"] else
         ("transfer_running" if out["workers_at_abort"] else "no_worker")))
    detail = dict(kind=kind, size=size, connect=connect, abort=abort, followup=followup, replies=r, end=out["end"],
                  workers_at_abort=out["workers_at_abort"], eof=out["eof"], got_len=len(out["got"]))

    def bad(sym):
        raise Violation(f"C14/{tag}/{phase}/{sym}", detail)

    if out["end"] == "EOF":
        bad("session_closed")
    if kind == "NONE":
        allowed = {("226",)}
    else:
        allowed = {("150", "426", "226"), ("150", D, "226")}
        if connect == "never":
            allowed |= {("150", "425", "226")}
        if abort is not None and abort < 0:
            # only an ABOR sent *before* the command may be answered first and leave the transfer alone
            allowed |= {("226", "150", D)} | ({("226", "150", "425")} if connect == "never" else set())
    if r not in allowed:
        n226 = r.count("226") + r.count("200") + r.count("426") + r.count("425")
        if len(r) < 3 and kind != "NONE":
            bad("abor_unanswered")
        bad("reply_sequence_" + "+".join(r))
    interrupted = "426" in r
    if out["server_data_open"]:
        bad("data_connection_left_open")
    content = out["content"]
    if kind == "RETR":
        if connect != "never" and out["eof"] is False:
            bad("no_eof_on_data_connection")
        if not content.startswith(out["got"]):
            bad("received_not_a_prefix")
        if not interrupted and connect != "never" and out["got"] != content:
            bad("completed_but_truncated")
    elif kind in ("LIST", "MLSD"):
        if connect != "never" and out["eof"] is False:
            bad("no_eof_on_data_connection")
        lines = out["got"].decode().splitlines()
        names = [ln.rsplit(" ", 1)[-1] for ln in lines]
        if len(set(names)) != len(names) or any(not n.startswith("e") for n in names):
            bad("listing_not_a_prefix")
        if not interrupted and connect != "never" and len(names) != size:
            bad("completed_but_truncated")
    elif kind == "STOR":
        st_ = out["stored_n"]
        if st_ is not None and not content.startswith(st_):
            bad("stored_not_a_prefix")
        if not interrupted and connect != "never" and r != ("150", "425", "226") and st_ != content:
            bad("completed_but_truncated")
    elif kind == "APPE":
        st_ = out["stored_g"]
        if st_ is None or not (OLD + content).startswith(st_) or not st_.startswith(OLD):
            bad("stored_not_old_plus_prefix")
    fu = out["followup"]
    ok = {"PWD": ["257"], "ABOR": ["226"], "QUIT": ["221"], "RETR": ["229", "150", ("data_ok", True), "226"],
          "STOR": ["229", "150", "226", ("stored_ok", True)]}[followup.split("_")[0]]
    if fu and fu[0] == "same":
        ok = ["same"] + ok[1:]
    if fu != ok:
        detail["followup_result"] = fu
        bad("followup_" + followup + ("_on_the_same_listener" if fu and fu[0] == "same" else "") + "_misbehaves")


def grid(tier):
    cases = []
    for fu in ("PWD", "ABOR", "QUIT", "RETR", "STOR"):
        cases.append(("NONE", 0, "before", None, fu))
    for kind in KINDS:
        sizes = [0, 1, BLOCK, 3 * BLOCK + 1] if kind in ("RETR", "STOR", "APPE") else [0, 1, 3]
        for size in sizes:
            nblocks = (size + BLOCK - 1) // BLOCK if kind in ("RETR", "STOR", "APPE") else size
            horizon = nblocks * 1.0 + 4.0  # + open and close delays
            for connect in ("before", "late", "never"):
                aborts = [-0.5, 0, 0.0005]
                t = 0.5
                while t <= horizon + (1.5 if connect == "late" else 0) + (3.0 if connect == "never" else 0):
                    aborts.append(round(t, 4))
                    t += 0.5
                for ab in aborts:
                    fus = ["PWD", "RETR", "STOR", "ABOR", "QUIT", "RETR_SAME", "STOR_SAME"]
                    if tier == "quick":
                        fus = [fus[(len(cases)) % 7], fus[(len(cases) + 3) % 7]]
                    for fu in fus:
                        cases.append((kind, size, connect, ab, fu))
    return cases


def run_grid_case(case, tag="grid", **kw):
    kind, size, connect, abort, fu = case
    info = {}
    out = simnet.run(lambda loop: _scenario(loop, kind, size, connect, abort, fu, info=info, **kw))
    return out


def part_grid(ctx):
    cases = grid(ctx.tier)
    ctx.extra["grid_size"] = len(cases) if ctx.shard == 0 else 0
    for case in cases[ctx.shard::ctx.nshards]:
        out = run_grid_case(case)
        nt = bool(out["workers_at_abort"])
        ctx.count(case, nt, sample=dict(kind=case[0], size=case[1], data_connection=case[2], abort_at=case[3], followup=case[4],
                                        replies=out["replies"], followup_result=out["followup"]),
                  classes=["kind_" + case[0], "connect_" + case[2], "replies_" + "+".join(out["replies"]),
                           "worker_alive_at_abort" if nt else "no_worker_at_abort"])
        try:
            judge(*case, out, "grid")
        except Violation as v:
            ctx.fail(v.sig, dict(kind="grid", case=list(case)), v.detail)


def replay_grid(case):
    c = tuple(case["case"])
    judge(*c, run_grid_case(c), "grid")


# ---------------------------------------------------------------- iteration-indexed sweep
def sweep_cases(tier):
    out = []
    for kind in KINDS:
        for size in ([3 * BLOCK + 1] if kind in ("RETR", "STOR", "APPE") else [3]) + ([BLOCK, 1] if tier == "thorough" and kind in ("RETR", "STOR", "APPE") else []):
            for connect in ("before", "never") + (("late",) if tier == "thorough" else ()):
                for n in range(0, 90 if tier == "quick" else 160):
                    out.append((kind, size, connect, n))
    return out


def run_sweep_case(case):
    kind, size, connect, n = case
    return simnet.run(lambda loop: _scenario(loop, kind, size, connect, None, "PWD", delay=0, iter_abort=n))


def part_sweep(ctx):
    cases = sweep_cases(ctx.tier)
    for case in cases[ctx.shard::ctx.nshards]:
        kind, size, connect, n = case
        out = run_sweep_case(case)
        nt = bool(out["workers_at_abort"])
        ctx.count(case, nt, sample=dict(kind=kind, size=size, data_connection=connect, abor_sent_n_iterations_after_command=n,
                                        replies=out["replies"]),
                  classes=["kind_" + kind, "connect_" + connect, "replies_" + "+".join(out["replies"]),
                           "worker_alive_at_abort" if nt else "no_worker_at_abort"])
        try:
            judge(kind, size, connect, 0.001 if connect != "never" else 0.001, "PWD", out, "sweep")
        except Violation as v:
            ctx.fail(v.sig, dict(kind="sweep", case=list(case)), v.detail)


def replay_sweep(case):
    c = tuple(case["case"])
    judge(c[0], c[1], c[2], 0.001, "PWD", run_sweep_case(c), "sweep")


# ---------------------------------------------------------------- sampled
SAMPLED = st.tuples(st.sampled_from(KINDS), st.integers(0, 17), st.sampled_from(["before", "late", "never"]),
                    st.one_of(st.sampled_from([-0.5, 0, 0.0005]), st.integers(1, 9000).map(lambda x: x / 1000.0)),
                    st.sampled_from(["PWD", "RETR", "STOR", "ABOR", "QUIT", "RETR_SAME", "STOR_SAME"]), st.sampled_from([1.0, 0.3, 0.01, 0]),
                    st.lists(st.integers(0, 255), max_size=30))


def check_sampled(ctx, case):
    kind, size, connect, abort, fu, delay, tape = case
    if kind in ("LIST", "MLSD"):
        size = size % 5
    out = simnet.run(lambda loop: _scenario(loop, kind, size, connect, abort, fu, delay=delay), tape)
    nt = bool(out["workers_at_abort"])
    ctx.count(case, nt, sample=dict(kind=kind, size=size, data_connection=connect, abort_at=abort, followup=fu, delay=delay,
                                    tape=tape[:8], replies=out["replies"]),
              classes=["kind_" + kind, "connect_" + connect, "replies_" + "+".join(out["replies"]),
                       "worker_alive_at_abort" if nt else "no_worker_at_abort"])
    judge(kind, size, connect, abort, fu, out, "tapes")


def part_tapes(ctx):
    n = 800 if ctx.tier == "quick" else 40000
    hyp_run(ctx, SAMPLED, lambda c: check_sampled(ctx, c), n, name="tapes")


def replay_tapes(case):
    from vlib.runner import Ctx
    check_sampled(Ctx(PROPERTY, "tapes", "quick", 0, 0, 1), tuple(case))


# ---------------------------------------------------------------- ABOR while the server is blocked by TCP back pressure
BIGFILE = bytes(range(256)) * 1300  # 332800 bytes: more than the 64 KiB write buffer


async def _backpressure(loop, kind, read_first, followup, wait_before_abor, reset=None):
    server = aioftp.Server(path_io_factory=aioftp.MemoryPathIO, block_size=8192, wait_future_timeout=3)
    await server.start(HOST, PORT)
    tree = {"/": DIR, "/big": BIGFILE, "/g": OLD, "/d": DIR}
    for i in range(2500):
        tree["/d/entry-with-a-rather-long-name-%05d" % i] = b""
    harness.mem_populate(server, tree)
    raw = Raw(HOST, PORT, patience=9.0)
    await raw.connect()
    await raw.cmd("USER anonymous")
    await raw.cmd("EPSV")
    dr, dw = await raw.open_data()
    await asyncio.sleep(0.1)
    if read_first == 0:
        dw.transport.pause_reading()
    code, _ = await raw.cmd({"RETR": "RETR /big", "LIST": "LIST /d", "MLSD": "MLSD /d"}[kind])
    got = bytearray()
    while len(got) < read_first:
        chunk = await dr.read(min(8192, read_first - len(got)))
        if not chunk:
            break
        got.extend(chunk)
    dw.transport.pause_reading()  # the peer stops reading: the server's write buffer fills, drain() blocks
    await asyncio.sleep(wait_before_abor)
    sdata = [t for t in loop.net.all_transports if t.side == "s" and t.listener_port != PORT][-1]
    blocked = sdata.paused_at is not None
    # a user abort in a real client: ABOR goes out and the data socket is dropped in the same breath
    if reset == "before":
        dw.transport.abort()
    raw.send("ABOR")
    if reset == "after":
        dw.transport.abort()
    replies = [code]
    while True:
        c_, _l = await raw.reply(9.0)
        if c_ in ("SILENCE", "EOF", "GARBAGE"):
            end = c_
            break
        replies.append(c_)
    closed_by_server = sdata._closing
    # the peer now gives up its side (a real client does that after the 226)
    if reset:
        rest, eof = b"", True
    else:
        dw.transport.resume_reading()
        rest, eof = await read_all(dr, 30)
        dw.close()
    fu = None
    if end != "EOF":
        if followup == "PWD":
            fu = [(await raw.cmd("PWD"))[0]]
        else:
            c1, _ = await raw.cmd("EPSV")
            fu = [c1]
            if c1 == "229":
                r2, w2 = await raw.open_data()
                await asyncio.sleep(0.1)
                c2, _ = await raw.cmd("RETR /g")
                fu.append(c2)
                if c2 == "150":
                    buf, eof2 = await read_all(r2, 30)
                    fu.append(("data_ok", buf == OLD and eof2))
                    w2.close()
                    fu.append((await raw.reply())[0])
    raw.close()
    await asyncio.wait_for(server.close(), 1000)
    return dict(replies=replies, end=end, blocked=blocked, closed_by_server=closed_by_server, eof_after=eof, followup=fu,
                received=len(got) + len(rest))


def backpressure_cases(tier):
    out = []
    for kind in ("RETR", "LIST", "MLSD"):
        for read_first in (0, 8192, 100000):
            for fu in ("PWD", "RETR"):
                for w in ((0.5,) if tier == "quick" else (0.5, 0.0, 2.0)):
                    out.append((kind, read_first, fu, w))
    for kind in ("RETR", "LIST", "MLSD"):
        for read_first in (0, 8192):
            for reset in ("before", "after"):
                for w in (0.5, 0.0):
                    out.append((kind, read_first, "PWD", w, reset))
    return out


def judge_backpressure(case, out):
    kind, read_first, fu, w = case[:4]
    detail = dict(kind=kind, read_first=read_first, followup_kind=fu, data_socket_reset=case[4] if len(case) > 4 else None,
                  **{k: v for k, v in out.items()})

    def bad(sym):
        raise Violation(f"C14/backpressure/{kind}/{sym}", detail)

    if out["end"] == "EOF":
        bad("session_closed")
    r = tuple(out["replies"])
    D = done_code(kind)
    if r not in {("150", "426", "226"), ("150", D, "226")}:
        if len(r) < 3:
            bad("abor_unanswered")
        bad("reply_sequence_" + "+".join(r))
    if len(case) > 4 and r != ("150", "426", "226"):
        bad("interrupted_transfer_answered_as_completed")
    if not out["closed_by_server"]:
        bad("data_connection_not_closed_by_server")
    if out["eof_after"] is False:
        bad("no_eof_on_data_connection")
    ok = {"PWD": ["257"], "RETR": ["229", "150", ("data_ok", True), "226"]}[fu]
    if out["followup"] != ok:
        bad("followup_" + fu + "_misbehaves")


def part_backpressure(ctx):
    for case in backpressure_cases(ctx.tier)[ctx.shard::ctx.nshards]:
        out = simnet.run(lambda loop: _backpressure(loop, *case))
        ctx.count(case, out["blocked"], sample=dict(kind=case[0], bytes_read_before_the_peer_stops=case[1], followup=case[2],
                                                   server_blocked_in_drain=out["blocked"], replies=out["replies"], bytes_received=out["received"]),
                  classes=["kind_" + case[0], "blocked" if out["blocked"] else "not_blocked", "replies_" + "+".join(out["replies"])])
        try:
            judge_backpressure(case, out)
        except Violation as v:
            ctx.fail(v.sig, dict(kind="backpressure", case=list(case)), v.detail)


def replay_backpressure(case):
    c = tuple(case["case"])
    judge_backpressure(c, simnet.run(lambda loop: _backpressure(loop, *c)))


# ---------------------------------------------------------------- a second ABOR while the first one is still being carried out
async def _double(loop, kind, first_at, gap, close_delay, nblocks, second="ABOR"):
    ctl = harness.Ctl()
    ctl.delays = {"read": 0.2, "write": 0.2, "list.next": 0.2}
    if close_delay:
        ctl.delays["close"] = close_delay
    server = aioftp.Server(path_io_factory=harness.instrument(aioftp.MemoryPathIO, ctl), block_size=BLOCK, wait_future_timeout=5)
    await server.start(HOST, PORT)
    tree = {"/": DIR, "/g": bytes(range(BLOCK * nblocks)), "/d": DIR}
    for i in range(nblocks):
        tree["/d/e%d" % i] = b"x"
    harness.mem_populate(server, tree)
    raw = harness.Raw(HOST, PORT, patience=30)
    await raw.connect()
    await raw.cmd("USER anonymous")
    await raw.cmd("EPSV")
    dr, dw = await raw.open_data()
    await asyncio.sleep(0.1)
    line = {"RETR": "RETR /g", "STOR": "STOR /n", "APPE": "APPE /g", "LIST": "LIST /d", "MLSD": "MLSD /d"}[kind]
    code, _ = await raw.cmd(line)
    replies = [code]
    if code == "150":
        async def feed():
            if kind in ("STOR", "APPE"):
                for i in range(nblocks):
                    dw.write(bytes([65 + i]) * BLOCK)
                    await asyncio.sleep(0.2)
            else:
                await harness.read_all(dr, 60)
        feeder = asyncio.ensure_future(feed())
        await asyncio.sleep(first_at)
        if gap == 0:
            raw.send(("ABOR\r\n" + second + "\r\n").encode())
        else:
            raw.send("ABOR")
            await asyncio.sleep(gap)
            raw.send(second)
        while True:
            c, _ = await raw.reply()
            if c in ("SILENCE", "EOF"):
                replies.append(c)
                break
            replies.append(c)
            if len(replies) >= 6:
                break
        feeder.cancel()
    dw.close()
    follow = (await raw.cmd("PWD"))[0] if replies[-1] != "EOF" else None
    if second == "QUIT":
        follow = "257"  # the session is over by request
    raw.close()
    await asyncio.sleep(2 + (close_delay or 0))
    handles = ctl.open_handles
    await asyncio.wait_for(server.close(), 1000)
    return dict(replies=replies, follow=follow, open_handles=handles)


def double_cases(tier):
    out = []
    for kind in KINDS:
        for first_at in (0.05, 0.3, 0.9) + ((1.7, 5.0) if tier == "thorough" else (5.0,)):
            for gap in (0, 0.0005, 0.3, 0.7) + ((1.5,) if tier == "thorough" else ()):
                for close_delay in (0, 1.0):
                    out.append((kind, first_at, gap, close_delay, 6))
    # the command right behind the ABOR is something else: the ABOR is answered all the same (before the session ends)
    for kind in KINDS:
        for first_at in (0.3, 0.9):
            for gap in (0, 0.0005, 0.3):
                for close_delay in (0, 1.0):
                    for second in ("PWD", "QUIT"):
                        out.append((kind, first_at, gap, close_delay, 6, second))
    return out


def judge_double(case, out):
    kind, first_at, gap, close_delay, nblocks = case[:5]
    second = case[5] if len(case) > 5 else "ABOR"
    detail = dict(kind=kind, first_abor_after=first_at, gap_to_second_command=gap, second_command=second, backend_close_delay=close_delay, **out)
    r = out["replies"]
    done = done_code(kind)
    if second != "ABOR":
        # which of the two answers comes first is not judged; the ABOR must get its own (426 + 226, or 226) before the end
        tail = {"PWD": ["257", "SILENCE"], "QUIT": ["221", "EOF"]}[second]
        body = sorted(x for x in r if x not in ("SILENCE", "EOF"))
        ok = [sorted(["150", "426", "226", tail[0]]), sorted(["150", done, "226", tail[0]])]
        if body not in ok or r[-1] != tail[1]:
            missing = "226" not in r[1:] or len(body) < 4
            raise Violation(f"C14/double/{'ABOR_unanswered_when_followed_by_' + second if missing else 'unexpected_replies'}/{kind}", detail)
        if out["follow"] != "257":
            raise Violation(f"C14/double/session_not_usable_afterwards/{kind}", detail)
        return
    # the transfer either completes (its own completion reply) or is interrupted (426 + 226); every ABOR that interrupts
    # nothing is answered by a single 226: four replies after the command in either case, then silence
    allowed = (["150", done, "226", "226", "SILENCE"], ["150", "426", "226", "226", "SILENCE"], ["150", "226", done, "226", "SILENCE"])
    if r not in [list(a) for a in allowed]:
        missing = r[-1] == "SILENCE" and len(r) < 5
        raise Violation(f"C14/double/{'an_ABOR_is_never_answered' if missing else 'unexpected_replies'}/{kind}", detail)
    if out["follow"] != "257":
        raise Violation(f"C14/double/session_not_usable_afterwards/{kind}", detail)
    if out["open_handles"]:
        raise Violation(f"C14/double/backend_handle_left_open/{kind}", detail)


def part_double(ctx):
    for case in double_cases(ctx.tier)[ctx.shard::ctx.nshards]:
        out = simnet.run(lambda loop: _double(loop, *case))
        ctx.count(case, "426" in out["replies"], sample=dict(kind=case[0], first_abor_after=case[1], gap=case[2], close_delay=case[3],
                                                              replies=out["replies"]),
                  classes=["double_" + case[0], "double_interrupted" if "426" in out["replies"] else "double_completed"])
        try:
            judge_double(case, out)
        except Violation as v:
            ctx.fail(v.sig, dict(kind="double", case=list(case)), v.detail)


def replay_double(case):
    c = tuple(case["case"])
    judge_double(c, simnet.run(lambda loop: _double(loop, *c)))


# ---------------------------------------------------------------- later transfers of a session that has aborted one
async def _later(loop, kind, first_at, kind2, drop):
    """ABOR interrupts `kind`; later the same session runs `kind2`, whose data connection the client drops half way
    (drop = fin | rst) or which runs to its end (drop = None): each command still gets exactly one final reply."""
    ctl = harness.Ctl()
    ctl.delays = {"read": 0.2, "write": 0.2, "list.next": 0.2}
    server = aioftp.Server(path_io_factory=harness.instrument(aioftp.MemoryPathIO, ctl), block_size=BLOCK, wait_future_timeout=5)
    await server.start(HOST, PORT)
    tree = {"/": DIR, "/g": bytes(range(BLOCK * 6)), "/d": DIR}
    for i in range(6):
        tree["/d/e%d" % i] = b"x"
    harness.mem_populate(server, tree)
    raw = harness.Raw(HOST, PORT, patience=30)
    await raw.connect()
    await raw.cmd("USER anonymous")
    lines = {"RETR": "RETR /g", "STOR": "STOR /n", "APPE": "APPE /g", "LIST": "LIST /d", "MLSD": "MLSD /d"}
    out = dict(first=[], second=[], follow=None, extra=None)
    await raw.cmd("EPSV")
    dr, dw = await raw.open_data()
    code, _ = await raw.cmd(lines[kind])
    out["first"].append(code)
    if kind in ("STOR", "APPE"):
        dw.write(b"A" * BLOCK)
    await asyncio.sleep(first_at)
    raw.send("ABOR")
    for _ in range(2):
        c, _l = await raw.reply(8)
        out["first"].append(c)
    dw.close()
    if out["first"] != ["150", "426", "226"]:
        out["skipped"] = True
    else:
        await raw.cmd("EPSV")
        dr, dw = await raw.open_data()
        await asyncio.sleep(0.1)
        raw.send(lines[kind2])
        c, _l = await raw.reply(8)
        out["second"].append(c)
        if c == "150":
            if kind2 in ("STOR", "APPE"):
                dw.write(b"B" * BLOCK)
                await asyncio.sleep(0.5)
                if drop is None:
                    dw.write(b"C" * BLOCK)
                    await asyncio.sleep(0.3)
            else:
                await asyncio.sleep(0.5)
                if drop is None:
                    await harness.read_all(dr, 30)
            if drop == "rst":
                dw.transport.abort()
            else:
                dw.close()
            while len(out["second"]) < 5:
                c, _l = await raw.reply(8)
                if c == "SILENCE":
                    break
                out["second"].append(c)
                if c == "EOF":
                    break
        if "EOF" not in out["second"]:
            out["follow"] = (await raw.cmd("PWD"))[0]
            quiet, line = await raw.silence(3)
            out["extra"] = None if quiet else repr(line)
    raw.close()
    await asyncio.sleep(2)
    out["open_handles"] = ctl.open_handles
    await asyncio.wait_for(server.close(), 1000)
    return out


def later_cases(tier):
    return [(k, a, k2, drop) for k in KINDS for a in ((0.3,) if tier == "quick" else (0.05, 0.3, 0.9)) for k2 in KINDS
            for drop in ("fin", "rst", None)]


def judge_later(case, out):
    kind, first_at, kind2, drop = case
    if out.get("skipped"):
        return
    detail = dict(aborted=kind, abor_after=first_at, then=kind2, data_connection_dropped=drop, **out)
    r = out["second"]
    if "EOF" in r:
        raise Violation(f"C14/later/session_closed/{kind2}", detail)
    # exactly one final reply behind the 150: completion, or 426 when the data connection was lost
    if len(r) != 2 or r[0] != "150" or r[1] not in ((done_code(kind2),) if drop is None else (done_code(kind2), "426")):
        raise Violation(f"C14/later/reply_sequence_{'+'.join(r or ['none'])}/{kind2}", detail)
    if out["follow"] != "257" or out["extra"] is not None:
        raise Violation(f"C14/later/session_not_usable_afterwards/{kind2}", detail)
    if out["open_handles"]:
        raise Violation(f"C14/later/backend_handle_left_open/{kind2}", detail)


def part_later(ctx):
    for case in later_cases(ctx.tier)[ctx.shard::ctx.nshards]:
        out = simnet.run(lambda loop: _later(loop, *case))
        ctx.count(("later",) + case, not out.get("skipped") and case[3] is not None,
                  sample=dict(aborted=case[0], abor_after=case[1], then=case[2], drop=case[3], first=out["first"], second=out["second"]),
                  classes=["later_" + case[2], "later_drop_" + str(case[3])] + (["later_skipped"] if out.get("skipped") else []))
        try:
            judge_later(case, out)
        except Violation as v:
            ctx.fail(v.sig, dict(kind="later", case=list(case)), v.detail)


def replay_later(case):
    c = tuple(case["case"])
    judge_later(c, simnet.run(lambda loop: _later(loop, *c)))


# ---------------------------------------------------------------- ABOR right behind the command, handler giving up k loop iterations
async def _yields(loop, kind, k, gap_iterations):
    """The pre-transfer checks of the backend give up exactly k bare loop iterations (no virtual time): the ABOR that was
    sent in the same segment as the command (or n iterations later) reaches the worker task in every phase of its start."""
    ctl = harness.Ctl()
    ctl.yields = {"exists": k, "is_file": k, "is_dir": k}
    server = aioftp.Server(path_io_factory=harness.instrument(aioftp.MemoryPathIO, ctl), block_size=BLOCK, wait_future_timeout=3)
    await server.start(HOST, PORT)
    harness.mem_populate(server, {"/": DIR, "/g": OLD, "/f": bytes(range(3 * BLOCK)), "/d": DIR, "/d/a": b"1", "/d/b": b"2"})
    raw = harness.Raw(HOST, PORT, patience=6)
    await raw.connect()
    await raw.cmd("USER anonymous")
    await raw.cmd("EPSV")
    dr, dw = await raw.open_data()
    await asyncio.sleep(0.1)
    line = {"RETR": "RETR /f", "STOR": "STOR /n", "APPE": "APPE /g", "LIST": "LIST /d", "MLSD": "MLSD /d"}[kind]
    if gap_iterations == 0:
        raw.send((line + "\r\nABOR\r\n").encode())
    else:
        raw.send(line)
        for _ in range(gap_iterations):
            await asyncio.sleep(0)
        raw.send("ABOR")
    replies = []
    while len(replies) < 5:
        c, _ = await raw.reply()
        replies.append(c)
        if c in ("EOF", "SILENCE"):
            break
    follow = (await raw.cmd("PWD"))[0] if replies[-1] != "EOF" else None
    # the data connection of an interrupted transfer is closed by the server
    eof = None
    if "426" in replies:
        _d, eof = await harness.read_all(dr, 3)
    raw.close()
    dw.close()
    await asyncio.wait_for(server.close(), 1000)
    return dict(replies=replies, follow=follow, data_eof=eof)


def yields_cases(tier):
    return [(kind, k, gap) for kind in KINDS for k in range(0, 7 if tier == "quick" else 12) for gap in ((0, 1, 2, 3) if tier == "quick" else range(0, 8))]


def judge_yields(case, out):
    kind, k, gap = case
    detail = dict(kind=kind, loop_iterations_given_up_by_each_pre_transfer_check=k, abor_sent_n_iterations_after_command=gap, **out)
    D = done_code(kind)
    allowed = (["150", "426", "226", "SILENCE"], ["150", D, "226", "SILENCE"])
    if out["replies"] not in [list(a) for a in allowed]:
        sym = "session_closed" if out["replies"][-1] == "EOF" else ("abor_unanswered" if len(out["replies"]) < 4 else "reply_sequence_" + "+".join(out["replies"][:4]))
        raise Violation(f"C14/yields/{sym}/{kind}", detail)
    if out["follow"] != "257":
        raise Violation(f"C14/yields/session_not_usable_afterwards/{kind}", detail)
    if out.get("data_eof") is False:
        raise Violation(f"C14/yields/data_connection_left_open/{kind}", detail)


def part_yields(ctx):
    for case in yields_cases(ctx.tier)[ctx.shard::ctx.nshards]:
        out = simnet.run(lambda loop: _yields(loop, *case))
        ctx.count(case, "426" in out["replies"] or "EOF" in out["replies"], sample=dict(kind=case[0], yields=case[1], gap=case[2], replies=out["replies"]),
                  classes=["yields_" + case[0]])
        try:
            judge_yields(case, out)
        except Violation as v:
            ctx.fail(v.sig, dict(kind="yields", case=list(case)), v.detail)


def replay_yields(case):
    c = tuple(case["case"])
    judge_yields(c, simnet.run(lambda loop: _yields(loop, *c)))


def plan(tier):
    return [("grid", 16), ("sweep", 8), ("tapes", 8), ("backpressure", 6), ("double", 8), ("yields", 8), ("later", 8)]

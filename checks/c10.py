"""C10 - connection limits are exact and slots are always returned."""

import asyncio
import logging

from hypothesis import strategies as st

from vlib import harness, simnet
from vlib.harness import HOST, PORT, Raw, aioftp, instrument
from vlib.runner import Violation, hyp_run

PROPERTY = "C10"
LEVEL = "exploration"
RULE = ("Hypothesis draws a server limit (None, 1-3), per-user limits (None, 1-2) for three users (password-protected, "
        "password-less, anonymous), an idle timeout (None or 30 s), a history of 5-30 events over up to 6 concurrent raw "
        "sessions (connect; USER same / other / unknown / over-limit user; PASS right / wrong; QUIT; abrupt disconnect; "
        "partial line or command followed by FIN; undecodable line; let the idle timeout expire; force an internal error "
        "through a backend that raises a non-PathIOError; Server.close() as last event) and a network schedule tape. "
        "Oracle = slot-conservation model checked at quiescence after every event: available_connections.value == max - "
        "live admitted sessions, every user's counter == max_u - sessions attached to that user, a connect beyond the "
        "limit is greeted 421 and a USER beyond the user's limit answered 530 and neither is counted, the server logger "
        "never reports a failed accounting operation ('Too many acquires/releases'), and after all sessions are gone all "
        "counters are back at their maximum. Non-trivial = >= 2 sessions alive at once and at least one abnormal end or a "
        "re-USER; distinct by hash of the case.")
ASSUMPTIONS = [
    "a session holds a server slot from its 220 greeting until it ends; a user slot from a USER answered 230/331 until "
    "it ends or sends USER again (the old slot is returned before the new lookup)",
    "only the aioftp.server logger is inspected (asyncio itself logs cancelled dispatchers on Server.close())",
]
REPLAY_ATTEMPTS = 2

EVENTS = ["connect", "connect", "user", "user", "user", "pass", "quit", "drop", "drop_mid", "idle", "garbage", "error", "pwd", "quit_reset",
          "cmd_reset", "xfer", "xfer"]
EVENT = st.tuples(st.sampled_from(EVENTS), st.integers(0, 255), st.integers(0, 255))
CASE = st.tuples(st.sampled_from([None, 1, 2, 3]), st.sampled_from([None, 1, 2]), st.sampled_from([None, 1, 2]),
                 st.sampled_from([None, 1]), st.sampled_from([None, 30]), st.lists(EVENT, min_size=5, max_size=30),
                 st.booleans(), st.lists(st.integers(0, 255), max_size=30))


class Cap(logging.Handler):
    def __init__(self):
        super().__init__(level=0)
        self.recs = []

    def emit(self, r):
        text = r.getMessage()
        if r.exc_info:
            text += " " + logging.Formatter().formatException(r.exc_info)
        self.recs.append((r.levelno, text))


async def _run(loop, case, info):
    smax, ma, mb, manon, idle, events, close_last, tape = case
    ctl = harness.Ctl()
    ctl.record = False
    fac = instrument(aioftp.MemoryPathIO, ctl)
    users = [aioftp.User("a", "pa", maximum_connections=ma), aioftp.User("b", None, maximum_connections=mb),
             aioftp.User(None, maximum_connections=manon)]
    server = aioftp.Server(users, path_io_factory=fac, maximum_connections=smax, idle_timeout=idle)
    await server.start(HOST, PORT)
    um = server.user_manager
    sess = {}
    nid = [0]
    hist = info["hist"]

    def lookup(name):
        user = None
        for u in users:
            if u.login is None and user is None:
                user = u
            elif u.login == name:
                user = u
                break
        return user

    def live():
        return [s for s in sess.values() if s["admitted"] and not s["dead"]]

    def check(tag):
        lv = live()
        if len(lv) >= 2:
            info["max_live"] = max(info.get("max_live", 0), len(lv))
        if smax is not None and server.available_connections.value != smax - len(lv):
            raise Violation(f"C10/server_slots/{'leaked' if server.available_connections.value < smax - len(lv) else 'over_released'}/after={tag}",
                            dict(counter=server.available_connections.value, expected=smax - len(lv), hist=hist[-8:]))
        for u in users:
            att = len([s for s in lv if s["user"] is u])
            ac = um.available_connections[u]
            if u.maximum_connections is not None and ac.value != u.maximum_connections - att:
                raise Violation(f"C10/user_slots/{'leaked' if ac.value < u.maximum_connections - att else 'over_released'}/after={tag}",
                                dict(user=u.login, counter=ac.value, expected=u.maximum_connections - att, hist=hist[-8:]))

    for ev, x, y in [("connect", 0, 0), ("connect", 0, 0)] + list(events):
        alive = [k for k, s in sess.items() if not s["dead"]]
        if ev != "connect" and not alive:
            continue
        if ev == "connect":
            if len(alive) >= 6:
                continue
            raw = Raw(HOST, PORT, patience=20)
            code, _ = await raw.connect()
            exp = "421" if (smax is not None and len(live()) >= smax) else "220"
            hist.append(("connect", code))
            if code != exp:
                raise Violation(f"C10/greeting/got={code}/expected={exp}", dict(hist=hist[-8:], live=len(live()), smax=smax))
            sess[nid[0]] = dict(raw=raw, admitted=(code == "220"), user=None, dead=(code != "220"))
            if code != "220":
                raw.close()
            nid[0] += 1
        else:
            k = alive[x % len(alive)]
            s = sess[k]
            raw = s["raw"]
            if ev == "user":
                name = ["a", "b", "zz", "a", "anonymous"][y % 5]
                full = [u for u in users if u.maximum_connections is not None
                        and len([z for z in live() if z is not s and z["user"] is u]) >= u.maximum_connections - (y // 16) % 2]
                if full and (y // 5) % 3:
                    name = full[y % len(full)].login or "anonymous"
                u = lookup(name)
                att = len([z for z in live() if z is not s and z["user"] is u])
                over = u is not None and u.maximum_connections is not None and att >= u.maximum_connections
                code, _ = await raw.cmd("USER " + name)
                exp = "530" if (u is None or over) else ("331" if (u.login is not None and u.password is not None) else "230")
                hist.append(("user", k, name, code))
                if s["user"] is not None:
                    info["reuser"] = True
                if over:
                    info["over_user_limit"] = True
                if code != exp:
                    raise Violation(f"C10/user_reply/got={code}/expected={exp}", dict(hist=hist[-8:], over=over))
                s["user"] = None if code == "530" else u
            elif ev == "pass":
                code, _ = await raw.cmd("PASS " + ["pa", "x"][y % 2])
                hist.append(("pass", k, code))
            elif ev == "pwd":
                code, _ = await raw.cmd("PWD")
                hist.append(("pwd", k, code))
            elif ev == "xfer":
                # the session goes through a transfer state before it ends: refused for lack of a data connection (425
                # after wait_future_timeout), completed, aborted, or still waiting when the next event ends the session
                code, lines = await raw.cmd("EPSV")
                hist.append(("epsv", k, code))
                if code == "229":
                    raw.passive_port = harness.parse_passive(code, lines[-1])
                    variant = y % 4
                    if variant in (1, 2):
                        d = await raw.open_data()
                        await asyncio.sleep(0.05)
                    code, _ = await raw.cmd("LIST" if variant != 2 else "STOR /up%d" % k)
                    seq = [code]
                    if code == "150":
                        if variant == 0:
                            seq.append((await raw.reply())[0])  # 425 once wait_future_timeout has passed
                        elif variant == 1:
                            await harness.read_all(d[0], 20)
                            d[1].close()
                            seq.append((await raw.reply())[0])
                        elif variant == 2:
                            d[1].write(b"x" * 10)
                            await asyncio.sleep(0.05)
                            raw.send("ABOR")
                            seq.append((await raw.reply())[0])
                            seq.append((await raw.reply())[0])
                            d[1].close()
                        else:
                            # the worker is still waiting for its data connection when the peer vanishes
                            raw.close()
                            s["dead"] = True
                            info["abnormal"] = True
                    elif variant in (1, 2):
                        d[1].close()
                    info["transfer_state"] = True
                    hist.append(("xfer", k, variant, seq))
            elif ev == "quit":
                code, _ = await raw.cmd("QUIT")
                s["dead"] = True
                raw.close()
                hist.append(("quit", k, code))
            elif ev == "drop":
                raw.close()
                s["dead"] = True
                info["abnormal"] = True
                hist.append(("drop", k))
            elif ev in ("quit_reset", "cmd_reset"):
                # the peer sends a command and resets the connection n loop iterations later (before / while the reply is written)
                raw.send("QUIT" if ev == "quit_reset" else ["PWD", "USER a", "PASS pa", "SYST"][y % 4])
                left = [y % 10]
                fired = asyncio.Event()

                def tick():
                    if left[0] <= 0:
                        raw.w.transport.abort()
                        fired.set()
                        return
                    left[0] -= 1
                    loop.call_soon(tick)

                loop.call_soon(tick)
                await fired.wait()
                s["dead"] = True
                info["abnormal"] = True
                hist.append((ev, k, y % 10))
            elif ev == "drop_mid":
                part = [b"USER a", b"USER b\r\n", b"PASS pa\r\n", b"PA", b"USER a\r\nUSER b\r\nQUIT\r\n", b"QUIT\r\n"][y % 6]
                raw.send(part)
                raw.close()
                s["dead"] = True
                info["abnormal"] = True
                hist.append(("drop_mid", k, part))
            elif ev == "garbage":
                raw.send(b"\xff\xfe USER\r\n")
                code, _ = await raw.reply()
                s["dead"] = True
                raw.close()
                info["abnormal"] = True
                hist.append(("garbage", k, code))
            elif ev == "error":
                if s["user"] is None or (s["user"].login == "a"):
                    continue
                ctl.fail_at = {ctl.n + 1 + (y % 2)}
                ctl.exc_factory = lambda name: NotImplementedError("internal error @" + name)
                code, _ = await raw.cmd("MKD /x%d" % y)
                ctl.fail_at = set()
                hist.append(("error", k, code))
                if code == "EOF":
                    s["dead"] = True
                    raw.close()
                    info["abnormal"] = True
            elif ev == "idle":
                if idle:
                    await asyncio.sleep(idle + 1)
                    for z in sess.values():
                        if not z["dead"]:
                            z["dead"] = True
                            z["raw"].close()
                    info["abnormal"] = True
                    hist.append(("idle",))
        await asyncio.sleep(0.7)
        check(ev)
    if close_last:
        hist.append(("server.close",))
        await asyncio.wait_for(server.close(), 1000)
        for z in sess.values():
            if not z["dead"]:
                z["dead"] = True
                z["raw"].close()
        await asyncio.sleep(0.5)
        check("server.close")
    else:
        for z in sess.values():
            if not z["dead"]:
                z["raw"].close()
                z["dead"] = True
        await asyncio.sleep(0.7)
        check("all_sessions_gone")
        await asyncio.wait_for(server.close(), 1000)
    if smax is not None and server.available_connections.value != smax:
        raise Violation("C10/server_slots/not_restored_at_end", dict(counter=server.available_connections.value, smax=smax))
    for u in users:
        if u.maximum_connections is not None and um.available_connections[u].value != u.maximum_connections:
            raise Violation("C10/user_slots/not_restored_at_end", dict(user=u.login, counter=um.available_connections[u].value))


def check_case(ctx, case):
    smax, ma, mb, manon, idle, events, close_last, tape = case
    info = dict(hist=[])
    cap = Cap()
    lg = logging.getLogger("aioftp.server")
    old = lg.level
    lg.setLevel(logging.WARNING)
    lg.addHandler(cap)
    try:
        simnet.run(lambda loop: _run(loop, case, info), tape)
        bad = [t for lvl, t in cap.recs if "Too many" in t]
        if bad:
            raise Violation("C10/accounting_operation_failed", dict(log=bad[0][-400:], hist=info["hist"][-8:]))
    finally:
        lg.removeHandler(cap)
        lg.setLevel(old)
        nt = info.get("max_live", 0) >= 2 and (info.get("abnormal") or info.get("reuser"))
        ctx.count(case, bool(nt), sample=dict(server_limit=smax, user_limits=dict(a=ma, b=mb, anonymous=manon), idle_timeout=idle,
                                             close_last=close_last, tape=tape[:6], history=info["hist"][:14]),
                  classes=["smax_%s" % smax, "idle_%s" % idle] + [k for k in ("abnormal", "reuser", "over_user_limit", "transfer_state") if info.get(k)]
                  + ["live_%d" % min(info.get("max_live", 1), 4)]
                  + (["greeting_421"] if any(h[0] == "connect" and h[1] == "421" for h in info["hist"]) else []))


def part_slots(ctx):
    n = 900 if ctx.tier == "quick" else 20000
    hyp_run(ctx, CASE, lambda c: check_case(ctx, c), n, name="slots")


def replay_slots(case):
    from vlib.runner import Ctx
    c = list(case)
    c[5] = [tuple(e) for e in c[5]]
    check_case(Ctx(PROPERTY, "slots", "quick", 0, 0, 1), tuple(c))


def plan(tier):
    return [("slots", 16)]

"""C05 - the command dispatcher conforms to a sequential FTP session model."""

from hypothesis import strategies as st

from vlib import harness, simnet, walk
from vlib.runner import Violation, hyp_run

PROPERTY = "C05"
LEVEL = "exploration"
RULE = ("Hypothesis draws an abstract program (<= 30 steps of 5 small ints), a backend (memory / PathIO / AsyncPathIO), "
        "IPv4 or IPv6 listener, block size and a network schedule tape; the program is concretised against the "
        "reference model state (state-aware verb weights, arguments relative to the model tree, REST/TYPE/PROT/EPSV "
        "argument classes, data connection before / after the 150 / never), four probes are appended (EPSV, RETR of "
        "an existing file, RNTO, PWD) and the history is run one command at a time against the real server on simnet; "
        "after every command: reply codes/order, reply text of 257, data bytes, listing names, no extra reply, "
        "session alive, backend tree == model tree. Non-trivial = >= 2 state-dependent interactions "
        "(REST->transfer, RNFR->RNTO, repeated PASV/EPSV, re-USER); distinct by hash of the concrete history.")
ASSUMPTIONS = [
    "commands are sent one at a time (next command only after the final reply and a quiet period)",
    "outcomes the property texts leave open are not judged (counted under classes.skipped_*): mutations aimed at the "
    "virtual root, RNTO after a re-USER, restart write to a missing file, duplicate permission entries that disagree",
    "reference model: vlib/ftpmodel.py (written from RFC 959/3659 + the property statements)",
]
REPLAY_ATTEMPTS = 2

STEP = st.tuples(*[st.integers(0, 255)] * 5)
CASE = st.tuples(st.lists(STEP, min_size=6, max_size=36), st.sampled_from(["mem", "mem", "fs", "afs"]),
                 st.booleans(), st.sampled_from([1, 4, 8192]), st.lists(st.integers(0, 255), max_size=40),
                 st.integers(0, len(walk.NEUTRAL_SERVER_KW) - 1))
PROBES = ["epsv", "retr_any", "rnto_fresh", "pwd"]


def check(ctx, case):
    program, backend, ipv6, block, tape = case[:5]
    neutral = walk.NEUTRAL_SERVER_KW[case[5]] if len(case) > 5 else {}
    history = walk.concretise(list(program) + PROBES, ipv6=ipv6)
    inter = walk.classify(history)
    verbs = [h["verb"].upper() or "EMPTY" for h in history]
    skipped = [h.get("why") for h in history if not h["judge"]]
    recs = []

    async def go(loop):
        with harness.TempDirs() as td:
            tmp = td.new() if backend != "mem" else None
            out = await walk.execute(loop, history, backend=backend, tmp=tmp, ipv6=ipv6, block_size=block,
                                     records=recs, server_kw=dict(neutral))
            await walk.finish(*out[2:])

    try:
        simnet.run(go, tape)
    finally:
        codes = [g for r in recs for g in (r.get("got") or [])]
        ctx.count([history], inter >= 2,
                  sample=dict(backend=backend, ipv6=ipv6, block=block, tape=tape[:10],
                              history=[(r["cmd"], r.get("got")) for r in recs]),
                  classes=["be_" + backend, "ipv6" if ipv6 else "ipv4", "server_options_" + ("+".join(sorted(neutral)) or "default")]
                  + ["verb_" + v for v in set(verbs)]
                  + ["code_" + c for c in set(codes)] + ["skipped_" + str(s) for s in skipped]
                  + (["has_transfer"] if any(len(r.get("got") or []) == 2 for r in recs) else []))
        ctx.classes["steps"] += len(recs)


def part_walk(ctx):
    n = 1000 if ctx.tier == "quick" else 6000
    hyp_run(ctx, CASE, lambda c: check(ctx, c), n, name="walk")


def replay_walk(case):
    from vlib.runner import Ctx
    check(Ctx(PROPERTY, "walk", "quick", 0, 0, 1), tuple(case))


# ---------------------------------------------------------------- the same histories over real loopback sockets
def check_real(ctx, case):
    """Fidelity of simnet and of the model: the same generated histories on the stock event loop over real TCP."""
    import asyncio
    program, backend, ipv6, block, tape = case
    history = walk.concretise(list(program) + PROBES, ipv6=False)
    recs = []

    async def go():
        with harness.TempDirs() as td:
            tmp = td.new() if backend != "mem" else None
            out = await walk.execute(None, history, backend=backend, tmp=tmp, ipv6=False, block_size=block, records=recs,
                                     port=0, wait=0.25, settle=0.03)
            await walk.finish(*out[2:])

    try:
        asyncio.run(go())
    finally:
        ctx.count([history], walk.classify(history) >= 2,
                  sample=dict(backend=backend, real_sockets=True, history=[(r["cmd"], r.get("got")) for r in recs]),
                  classes=["real_be_" + backend])
        ctx.extra["traces_validated_against_impl"] = ctx.extra.get("traces_validated_against_impl", 0) + 1


def part_real(ctx):
    n = 12 if ctx.tier == "quick" else 150
    real_case = st.tuples(st.lists(STEP, min_size=4, max_size=14), st.sampled_from(["mem", "fs", "afs"]), st.just(False),
                          st.sampled_from([4, 8192]), st.just([]))
    hyp_run(ctx, real_case, lambda c: check_real(ctx, c), n, name="real")


def replay_real(case):
    from vlib.runner import Ctx
    check_real(Ctx(PROPERTY, "real", "quick", 0, 0, 1), tuple(case))


def plan(tier):
    return [("walk", 16), ("real", 8)]

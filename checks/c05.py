"""C05 - the command dispatcher conforms to a sequential FTP session model."""

from hypothesis import strategies as st

from vlib import harness, simnet, walk
from vlib.runner import Violation, hyp_run

PROPERTY = "C05"
LEVEL = "exploration"
RULE = ("Hypothesis draws an abstract program (<= 30 steps of 5 small ints), a backend (memory / PathIO / AsyncPathIO), "
        "IPv4 or IPv6 listener, block size and a network schedule tape; the program is concretised against the "
        "reference model state (state-aware verb weights, arguments relative to the model tree, REST/TYPE/PROT/EPSV "
        "argument classes, data connection before / after the 150 / never), four probes are appended (EPSV, RETR of "
        "an existing file, RNTO, PWD) and the history is run one command at a time against the real server on simnet; "
        "after every command: reply codes/order, reply text of 257, data bytes, listing names, no extra reply, "
        "session alive, backend tree == model tree. Non-trivial = >= 2 state-dependent interactions "
        "(REST->transfer, RNFR->RNTO, repeated PASV/EPSV, re-USER); distinct by hash of the concrete history.")
ASSUMPTIONS = [
    "commands are sent one at a time (next command only after the final reply and a quiet period)",
    "outcomes the property texts leave open are not judged (counted under classes.skipped_*): mutations aimed at the "
    "virtual root, restart write to a missing file, duplicate permission entries that disagree",
    "reference model: vlib/ftpmodel.py (written from RFC 959/3659 + the property statements)",
]
REPLAY_ATTEMPTS = 2

STEP = st.tuples(*[st.integers(0, 255)] * 5)
CASE = st.tuples(st.lists(STEP, min_size=6, max_size=36), st.sampled_from(["mem", "mem", "fs", "afs"]),
                 st.booleans(), st.sampled_from([1, 4, 8192]), st.lists(st.integers(0, 255), max_size=40),
                 st.integers(0, len(walk.NEUTRAL_SERVER_KW) - 1))
PROBES = ["epsv", "retr_any", "rnto_fresh", "pwd"]


def check(ctx, case):
    program, backend, ipv6, block, tape = case[:5]
    neutral = walk.NEUTRAL_SERVER_KW[case[5]] if len(case) > 5 else {}
    history = walk.concretise(list(program) + PROBES, ipv6=ipv6)
    inter = walk.classify(history)
    verbs = [h["verb"].upper() or "EMPTY" for h in history]
    skipped = [h.get("why") for h in history if not h["judge"]]
    recs = []

    async def go(loop):
        with harness.TempDirs() as td:
            tmp = td.new() if backend != "mem" else None
            out = await walk.execute(loop, history, backend=backend, tmp=tmp, ipv6=ipv6, block_size=block,
                                     records=recs, server_kw=dict(neutral))
            await walk.finish(*out[2:])

    try:
        simnet.run(go, tape)
    finally:
        codes = [g for r in recs for g in (r.get("got") or [])]
        ctx.count([history], inter >= 2,
                  sample=dict(backend=backend, ipv6=ipv6, block=block, tape=tape[:10],
                              history=[(r["cmd"], r.get("got")) for r in recs]),
                  classes=["be_" + backend, "ipv6" if ipv6 else "ipv4", "server_options_" + ("+".join(sorted(neutral)) or "default")]
                  + ["verb_" + v for v in set(verbs)]
                  + ["code_" + c for c in set(codes)] + ["skipped_" + str(s) for s in skipped]
                  + (["has_transfer"] if any(len(r.get("got") or []) == 2 for r in recs) else []))
        ctx.classes["steps"] += len(recs)


def part_walk(ctx):
    n = 1000 if ctx.tier == "quick" else 6000
    hyp_run(ctx, CASE, lambda c: check(ctx, c), n, name="walk")


def replay_walk(case):
    from vlib.runner import Ctx
    check(Ctx(PROPERTY, "walk", "quick", 0, 0, 1), tuple(case))


# ---------------------------------------------------------------- the same histories over real loopback sockets
def check_real(ctx, case):
    """Fidelity of simnet and of the model: the same generated histories on the stock event loop over real TCP."""
    import asyncio
    program, backend, ipv6, block, tape = case
    history = walk.concretise(list(program) + PROBES, ipv6=False)
    recs = []

    async def go():
        with harness.TempDirs() as td:
            tmp = td.new() if backend != "mem" else None
            out = await walk.execute(None, history, backend=backend, tmp=tmp, ipv6=False, block_size=block, records=recs,
                                     port=0, wait=0.25, settle=0.03)
            await walk.finish(*out[2:])

    try:
        asyncio.run(go())
    finally:
        ctx.count([history], walk.classify(history) >= 2,
                  sample=dict(backend=backend, real_sockets=True, history=[(r["cmd"], r.get("got")) for r in recs]),
                  classes=["real_be_" + backend])
        ctx.extra["traces_validated_against_impl"] = ctx.extra.get("traces_validated_against_impl", 0) + 1


def part_real(ctx):
    n = 12 if ctx.tier == "quick" else 150
    real_case = st.tuples(st.lists(STEP, min_size=4, max_size=14), st.sampled_from(["mem", "fs", "afs"]), st.just(False),
                          st.sampled_from([4, 8192]), st.just([]))
    hyp_run(ctx, real_case, lambda c: check_real(ctx, c), n, name="real")


def replay_real(case):
    from vlib.runner import Ctx
    check_real(Ctx(PROPERTY, "real", "quick", 0, 0, 1), tuple(case))


# ---------------------------------------------------------------- the data connection breaks in the middle of a transfer
async def _datafault(loop, verb, how, after, backend, tmp):
    """Commands still come one at a time; the peer closes or resets its *data* socket while the transfer runs.  The transfer
    command still gets exactly one completion reply and the session goes on."""
    import asyncio
    from vlib.harness import HOST, PORT, aioftp
    from vlib.ftpmodel import DIR
    big = bytes(i % 251 for i in range(400000))
    users = [aioftp.User(base_path=tmp)] if backend != "mem" else [aioftp.User()]
    server = aioftp.Server(users, path_io_factory=harness.BACKENDS[backend], wait_future_timeout=2)
    await server.start(HOST, PORT)
    tree = {"/": DIR, "/big": big, "/small": b"small", "/d": DIR}
    for i in range(3000):
        tree["/d/entry-with-a-long-name-%05d" % i] = b""
    if backend == "mem":
        harness.mem_populate(server, tree)
    else:
        harness.fs_populate(tmp, tree)
    raw = harness.Raw(HOST, PORT, patience=30)
    await raw.connect()
    await raw.cmd("USER anonymous")
    await raw.cmd("EPSV")
    dr, dw = await raw.open_data()
    await asyncio.sleep(0.1)
    line = {"RETR": "RETR /big", "LIST": "LIST /d", "MLSD": "MLSD /d", "STOR": "STOR /up"}[verb]
    code, _ = await raw.cmd(line)
    replies = [code]
    if code == "150":
        if verb == "STOR":
            dw.write(big[:after])
            await asyncio.sleep(0.2)
        else:
            got = 0
            while got < after:
                chunk = await dr.read(min(8192, after - got))
                if not chunk:
                    break
                got += len(chunk)
        if how == "rst":
            dw.transport.abort()
        else:
            dw.close()
        while len(replies) < 4:
            c, _ = await raw.reply(10)
            replies.append(c)
            if c in ("EOF", "SILENCE"):
                break
    follow = []
    if replies[-1] != "EOF":
        follow.append((await raw.cmd("PWD"))[0])
        c1, _ = await raw.cmd("EPSV")
        follow.append(c1)
        if c1 == "229":
            d2 = await raw.open_data()
            await asyncio.sleep(0.1)
            c2, _ = await raw.cmd("RETR /small")
            follow.append(c2)
            if c2 == "150":
                data, eof = await harness.read_all(d2[0], 20)
                follow.append(data == b"small" and eof)
                follow.append((await raw.reply())[0])
            d2[1].close()
    raw.close()
    await asyncio.wait_for(server.close(), 1000)
    return dict(replies=replies, follow=follow)


def datafault_cases(tier):
    out = []
    for verb in ("RETR", "LIST", "MLSD", "STOR"):
        for how in ("rst", "fin"):
            for after in ((0, 1, 20000) if tier == "quick" else (0, 1, 8192, 20000, 150000)):
                for backend in (("mem", "fs") if tier == "quick" else ("mem", "fs", "afs")):
                    if verb == "STOR" and how == "fin":
                        continue  # closing the data connection is how an upload ends: not a fault
                    out.append((verb, how, after, backend))
    return out


def judge_datafault(case, out):
    verb, how, after, backend = case
    detail = dict(verb=verb, data_connection=how, after_bytes=after, backend=backend, **out)
    r = out["replies"]
    if r[-1] == "EOF":
        raise Violation(f"C05/datafault/session_closed_without_announcing_reply/{verb}", detail)
    if len(r) != 3 or r[0] != "150" or r[2] != "SILENCE" or r[1][0] not in "245":
        raise Violation(f"C05/datafault/not_exactly_one_completion_reply/{verb}", detail)
    if out["follow"] != ["257", "229", "150", True, "226"]:
        raise Violation(f"C05/datafault/session_not_usable_afterwards/{verb}", detail)


def part_datafault(ctx):
    for case in datafault_cases(ctx.tier)[ctx.shard::ctx.nshards]:
        with harness.TempDirs() as td:
            tmp = td.new() if case[3] != "mem" else None
            out = simnet.run(lambda loop: _datafault(loop, *case, tmp))
        ctx.count(("datafault",) + case, out["replies"][1:2] not in (["226"], ["200"]), sample=dict(verb=case[0], data_connection=case[1], after_bytes=case[2],
                                                                                                  backend=case[3], replies=out["replies"]),
                  classes=["datafault_" + case[0], "datafault_" + case[1]])
        try:
            judge_datafault(case, out)
        except Violation as v:
            ctx.fail(v.sig, dict(kind="datafault", case=list(case)), v.detail)


def replay_datafault(case):
    c = tuple(case["case"])
    with harness.TempDirs() as td:
        tmp = td.new() if c[3] != "mem" else None
        judge_datafault(c, simnet.run(lambda loop: _datafault(loop, *c, tmp)))


def plan(tier):
    return [("walk", 16), ("real", 8), ("datafault", 8)]

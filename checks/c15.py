"""C15 - speed limits bound the cumulative rate, compose, and cost nothing when off."""

import asyncio
import pathlib
from fractions import Fraction as F

from hypothesis import strategies as st

from vlib import harness, simnet
from vlib.ftpmodel import DIR
from vlib.harness import HOST, PORT, aioftp
from vlib.runner import Violation, hyp_run

PROPERTY = "C15"
LEVEL = "exploration"
RULE = ("api: Hypothesis draws a limit L in [1, 10^7] (or None / 0), a reset period in [0.01, 100], 1-4 streams in a "
        "topology (one shared throttle / the same plus a stream whose I/O stays pending for 2-50 reset periods / clones / "
        "opposite-direction limit only / two throttles with different limits), "
        "per stream a trace of (chunk size, I/O duration, idle gap) with gaps shorter and longer than the reset period, "
        "and optional limit changes through the setter; the real ThrottleStreamIO.read/write run over in-memory streams "
        "on the virtual clock. Oracle (exact rationals): at every I/O start t, bytes of I/Os completed before t <= "
        "L*(t - t0) + 1/2 byte per accounting step; single stream: start == max(ready, t0 + bytes_before/L) within the "
        "same tolerance (no extra delay); no limit or only the opposite direction limited: the clock does not advance "
        "inside the call beyond the I/O duration; clones are independent; the tighter of two limits governs. "
        "e2e: server-wide / per-connection / per-user / per-user-connection / client limits x direction x 1-4 "
        "connections x 1-2 users x file sizes through the real client and server on simnet at zero latency; every write "
        "of the limited side is time-stamped by the network; per scope cumulative bytes before t <= L*(t - t0) + one "
        "block per stream, and the total duration <= bytes in scope / L + the same slack. Non-trivial = the trace crosses "
        "a reset, has unequal chunks, or two limits apply (api); >= 2 connections or two limits (e2e); distinct by case.")
ASSUMPTIONS = [
    "tolerance: 1/1000 byte per accounting step plus 1e-9 relative float error and one byte (the reset fold is exact since the F25 repair)",
    "end to end: control-channel bytes pass through the same throttles and are counted in the scope's byte total",
    "each connection transfers its own file",
]
REPLAY_ATTEMPTS = 2


class MemStream:
    """Duck-typed reader+writer whose operations take a given virtual duration and record their start."""

    def __init__(self, loop, log, sid):
        self.loop, self.log, self.sid = loop, log, sid
        self.dur = 0.0
        self.n = 0
        self.ready = 0.0

    async def read(self, count=-1):
        start = self.loop.time()
        await asyncio.sleep(self.dur)
        self.log.append((self.sid, self.ready, start, self.loop.time(), self.n))
        return b"x" * self.n

    async def readline(self):
        return await self.read()

    async def readexactly(self, count):
        return await self.read()

    def write(self, data):
        self._start = self.loop.time()

    async def drain(self):
        await asyncio.sleep(self.dur)
        self.log.append((self.sid, self.ready, self._start, self.loop.time(), self.n))

    def close(self):
        pass


OPS = st.lists(st.tuples(st.integers(0, 70000), st.sampled_from([0, 0, 0.001, 0.3, 2.0]),
                         st.sampled_from([0, 0, 0, 0.01, 1.0, 15.0, 150.0])), min_size=1, max_size=25)
API = st.tuples(
    st.one_of(st.integers(1, 10 ** 7), st.sampled_from([1, 7, 1000, 65536])),
    st.sampled_from([0.01, 0.5, 1, 10, 100]),
    st.sampled_from(["read", "write"]),
    st.sampled_from(["single", "single", "shared", "shared_pending", "cloned", "opposite_only", "unlimited", "zero", "two_limits", "setter"]),
    st.lists(OPS, min_size=1, max_size=4),
    st.integers(2, 50))


TOL_STEP = F(1, 1000)  # per accounting step: float error only (the reset fold keeps fractions of a byte)


def verify_bound(events, L, tol_per_step, tag, detail, strict_single=False):
    """events: list of (sid, ready, start, end, n) for ONE throttle scope."""
    if not events:
        return
    ev = sorted(events, key=lambda e: (e[2], e[3]))
    t0 = F(ev[0][2])
    L = F(L)
    sids = {e[0] for e in ev}
    # streams sharing a throttle pass its wait() concurrently: one block per *other* stream may be in flight
    inflight_slack = (len(sids) - 1) * max(e[4] for e in ev)
    for i, (sid, ready, start, end, n) in enumerate(ev):
        completed = sum(F(e[4]) for e in ev if e[3] <= start and e is not ev[i] and (e[2], e[3]) <= (start, end))
        completed = sum(F(e[4]) for e in ev[:i] if e[3] <= start)
        allowed = L * (F(start) - t0)
        tol = F(tol_per_step) * (i + 1) + F(1, 10 ** 6) * max(1, allowed) / 1000 + 1 + inflight_slack
        if completed > allowed + tol:
            raise Violation(f"C15/{tag}/runs_ahead_of_limit", dict(detail, at=float(start), completed=float(completed), allowed=float(allowed)))
    if strict_single:
        done = F(0)
        for i, (sid, ready, start, end, n) in enumerate(ev):
            ideal = max(F(ready), t0 + done / L)
            tol_t = (F(tol_per_step) * (i + 1) + 1) / L + F(1, 10 ** 9) * max(1, abs(ideal))
            if F(start) > ideal + tol_t:
                raise Violation(f"C15/{tag}/extra_delay", dict(detail, index=i, start=float(start), ideal=float(ideal)))
            if F(start) < F(ready):
                raise Violation(f"C15/{tag}/harness_start_before_ready", detail)
            done += n


async def _api(loop, case, out):
    L, R, direction, topo, traces, L2div = case
    log = []
    other = "write" if direction == "read" else "read"

    def st_for(thr_main, thr_other=None):
        thr_other = thr_other or aioftp.Throttle(limit=None)
        return aioftp.StreamThrottle(read=thr_main if direction == "read" else thr_other,
                                     write=thr_main if direction == "write" else thr_other)

    main = aioftp.Throttle(limit=L, reset_rate=R)
    streams = []
    scopes = []  # (limit, [sids])
    if topo == "shared_pending":
        # one more stream on the same throttle whose single I/O stays pending for L2div reset periods while the others
        # move data (a control connection waiting for its next command during a transfer), then goes on
        traces = list(traces) + [[(6, min(500.0, L2div * R), 0)] + list(traces[0][:3])]
        topo = "shared"
    nstreams = len(traces) if topo in ("shared", "cloned") else 1
    if topo in ("single", "setter"):
        streams.append(dict(throttles={"a": st_for(main)}))
        scopes.append((L, [0]))
    elif topo == "shared":
        for i in range(nstreams):
            streams.append(dict(throttles={"a": st_for(main)}))
        scopes.append((L, list(range(nstreams))))
    elif topo == "cloned":
        base = st_for(main)
        for i in range(nstreams):
            streams.append(dict(throttles={"a": base.clone()}))
            scopes.append((L, [i]))
    elif topo == "opposite_only":
        streams.append(dict(throttles={"a": st_for(aioftp.Throttle(limit=None), aioftp.Throttle(limit=L, reset_rate=R))}))
    elif topo == "unlimited":
        streams.append(dict(throttles={"a": st_for(aioftp.Throttle(limit=None))}))
    elif topo == "zero":
        streams.append(dict(throttles={"a": st_for(aioftp.Throttle(limit=0))}))
    elif topo == "two_limits":
        L2 = max(1, L // L2div)
        streams.append(dict(throttles={"a": st_for(main), "b": st_for(aioftp.Throttle(limit=L2, reset_rate=R))}))
        scopes.append((L, [0]))
        scopes.append((L2, [0]))
    out["scopes"] = scopes
    out["setter_at"] = None

    async def run_stream(sid, trace):
        ms = MemStream(loop, log, sid)
        s = aioftp.ThrottleStreamIO(ms, ms, **streams[sid])
        for k, (n, dur, gap) in enumerate(trace):
            if topo == "setter" and k == len(trace) // 2 and k > 0:
                main.limit = max(1, L // L2div)
                out["setter_at"] = (k, main.limit, len(log))
            if gap:
                await asyncio.sleep(gap)
            ms.dur, ms.n, ms.ready = dur, n, loop.time()
            before = loop.time()
            if direction == "read":
                # every reading entry point of the stream is subject to the limit
                await [s.read, s.read, s.readexactly, s.readline][(k + sid) % 4](*([] if (k + sid) % 4 == 3 else [n]))
            else:
                await s.write(b"x" * n)
            out.setdefault("elapsed", []).append((sid, loop.time() - before, dur))

    total_bytes = sum(n for t in traces for n, _d, _g in t)
    horizon = 10 * (total_bytes / max(1, min(L, max(1, L // L2div))) + sum(d + g for t in traces for _n, d, g in t)) + 1000
    try:
        await asyncio.wait_for(asyncio.gather(*[run_stream(i, traces[i]) for i in range(len(streams))]), horizon)
    except asyncio.TimeoutError:
        raise Violation(f"C15/api/{topo}/extra_delay", dict(limit=L, reset_rate=R, topology=topo, note="trace not finished after 10x its ideal duration",
                                                          horizon=horizon))
    out["log"] = log


def check_api(ctx, case):
    L, R, direction, topo, traces, L2div = case
    out = {}
    try:
        simnet.run(lambda loop: _api(loop, case, out))
    except simnet.VirtualClockOverflow as e:
        raise Violation(f"C15/api/{topo}/extra_delay", dict(limit=L, reset_rate=R, topology=topo, note=str(e)))
    log = out["log"]
    detail = dict(limit=L, reset_rate=R, direction=direction, topology=topo, traces=[t[:6] for t in traces[:2]])
    crosses = any(gap > R for t in traces for _n, _d, gap in t)
    unequal = any(len({n for n, _d, _g in t}) > 1 for t in traces)
    ctx.count(case, crosses or unequal or topo in ("two_limits", "shared", "shared_pending", "setter"),
              sample=dict(limit=L, reset_rate=R, direction=direction, topology=topo, trace=traces[0][:5], ios=len(log)),
              classes=["topo_" + topo, "dir_" + direction] + (["crosses_reset"] if crosses else []) + (["unequal_chunks"] if unequal else []))
    if topo in ("opposite_only", "unlimited", "zero"):
        for sid, elapsed, dur in out.get("elapsed", []):
            if elapsed > dur + 1e-9:
                raise Violation(f"C15/api/{topo}/delay_without_applicable_limit", dict(detail, elapsed=elapsed, io_duration=dur))
        return
    if topo == "setter" and out["setter_at"]:
        k, newlimit, cut = out["setter_at"]
        verify_bound(log[:cut], L, TOL_STEP, "api/setter_before", detail, strict_single=True)
        verify_bound(log[cut:], newlimit, TOL_STEP, "api/setter_after", dict(detail, new_limit=newlimit), strict_single=True)
        return
    for limit, sids in out["scopes"]:
        ev = [e for e in log if e[0] in sids]
        verify_bound(ev, limit, TOL_STEP, "api/" + topo, dict(detail, scope_limit=limit),
                     strict_single=(topo in ("single", "cloned")))
    if topo == "two_limits":
        # the tighter limit governs and adds no delay beyond its own bound
        verify_bound([e for e in log], min(l for l, _ in out["scopes"]), TOL_STEP, "api/two_limits_tightest", detail, strict_single=True)


def part_api(ctx):
    n = 1200 if ctx.tier == "quick" else 15000
    hyp_run(ctx, API, lambda c: check_api(ctx, c), n, name="api")


def replay_api(case):
    from vlib.runner import Ctx
    L, R, direction, topo, traces, d = case
    check_api(Ctx(PROPERTY, "api", "quick", 0, 0, 1), (L, R, direction, topo, [[tuple(o) for o in t] for t in traces], d))


# ---------------------------------------------------------------- end to end
LEVELS = ["server", "conn", "user", "userconn", "client"]
E2E = st.tuples(st.sampled_from(LEVELS), st.sampled_from(["down", "up"]), st.sampled_from([500, 1000, 4000, 20000]), st.integers(1, 4),
                st.sampled_from([1, 2]), st.sampled_from([0, 1, 700, 3000, 9000]), st.sampled_from([64, 256, 1024]),
                st.one_of(st.none(), st.tuples(st.sampled_from(LEVELS[:4]), st.sampled_from([300, 2500, 50000]))),
                st.sampled_from(["atomic", "atomic", "pending_while_other_leaves", "reuser", "early_bird", "wrong_password_first"]))


async def _e2e(loop, case, out):
    level, direction, L, nconn, nusers, size, block, second, choreo = case
    loop.net.record_writes = True
    loop.net.fixed_latency = 0.0
    loop.net.fixed_segment = 1 << 30
    skey = ("write" if direction == "down" else "read") + "_speed_limit"
    ckey = ("read" if direction == "down" else "write") + "_speed_limit"
    skw, ukw, ckw = {}, {}, {}

    def put(lv, lim):
        if lv == "server":
            skw[skey] = lim
        elif lv == "conn":
            skw[skey + "_per_connection"] = lim
        elif lv == "user":
            ukw[skey] = lim
        elif lv == "userconn":
            ukw[skey + "_per_connection"] = lim
        else:
            ckw[ckey] = lim

    put(level, L)
    if second:
        put(second[0], second[1])
    out["limits"] = [(level, L)] + ([tuple(second)] if second else [])
    users = [aioftp.User("u%d" % i, "p", **ukw) for i in range(nusers)]
    server = aioftp.Server(users, path_io_factory=aioftp.MemoryPathIO, block_size=block, **skw)
    await server.start(HOST, PORT)
    tree = {"/": DIR}
    for i in range(nconn):
        tree["/f%d" % i] = bytes((i + k) % 251 for k in range(size))
    harness.mem_populate(server, tree)
    conns = []

    # login choreography: the sessions that transfer do not all log in atomically and at the same time
    gate = asyncio.Event()
    left = asyncio.Event()

    async def helper_session():
        """A session of user u0 that is fully logged in while session 0 is between USER and PASS, and then leaves."""
        h = aioftp.Client(path_io_factory=aioftp.MemoryPathIO)
        await h.connect(HOST, PORT)
        await h.login("u0", "p")
        hrec = dict(i=-1, user=0, ctrl=h.stream.writer.transport, data=[], helper=True, done=0.0)
        conns.append(hrec)
        gate.set()
        await asyncio.sleep(0.05)
        if choreo == "early_bird" and size:
            async with h.download_stream("/f0") as s_:
                hrec["data"].append(s_.writer.transport)
                await s_.read()
        await h.quit()
        hrec["done"] = loop.time()
        left.set()

    async def one(i):
        c = aioftp.Client(path_io_factory=aioftp.MemoryPathIO, **ckw)
        await c.connect(HOST, PORT)
        name = "u%d" % (i % nusers)
        if choreo == "pending_while_other_leaves" and i == 0:
            await c.command("USER " + name, "331")
            await left.wait()
            await c.command("PASS p", "230")
        elif choreo == "reuser" and i % 2 == 0:
            await c.login(name, "p")
            await c.command("USER " + name, "331")
            await c.command("PASS p", "230")
        elif choreo == "wrong_password_first" and i == 0:
            await c.command("USER " + name, "331")
            await c.command("PASS wrong", "530")
            await left.wait()
            await c.command("PASS p", "230")
        else:
            if choreo in ("pending_while_other_leaves", "wrong_password_first", "early_bird"):
                await left.wait()
            await c.login(name, "p")
        rec = dict(i=i, user=i % nusers, ctrl=c.stream.writer.transport, data=[])
        conns.append(rec)
        await start.wait() if False else None
        if direction == "down":
            async with c.download_stream("/f%d" % i) as s:
                rec["data"].append(s.writer.transport)
                n = 0
                async for b in s.iter_by_block(block):
                    n += len(b)
            if n != size:
                raise Violation("C15/e2e/harness_short_download", dict(n=n, size=size))
        else:
            async with c.upload_stream("/up%d" % i) as s:
                rec["data"].append(s.writer.transport)
                for k in range(0, size, block):
                    await s.write(tree["/f%d" % i][k:k + block])
        rec["done"] = loop.time()
        await c.quit()

    tasks = [one(i) for i in range(nconn)]
    if choreo in ("pending_while_other_leaves", "wrong_password_first", "early_bird"):
        tasks.append(helper_session())
    await asyncio.gather(*tasks)
    await asyncio.wait_for(server.close(), 1000)
    out["conns"] = conns


def scope_events(conns, level, direction, who):
    """(t, n) of every write of the limited side, for one scope instance."""
    ev = []
    for rec in conns:
        if who(rec):
            for t in [rec["ctrl"]] + rec["data"]:
                side = t.peer if (direction == "down" and level != "client") or (direction == "up" and level == "client" and False) else t
                if level == "client":
                    side = t if direction == "up" else t.peer
                else:
                    side = t.peer if direction == "down" else t
                ev.extend(side.write_log or [])
    return sorted(ev)


def check_e2e(ctx, case):
    level, direction, L, nconn, nusers, size, block, second, choreo = case
    if second and second[0] == level:
        second = None  # the same level cannot carry two limits
        case = (level, direction, L, nconn, nusers, size, block, None, choreo)
    out = {}
    try:
        simnet.run(lambda loop: _e2e(loop, case, out))
    except simnet.VirtualClockOverflow as e:
        raise Violation(f"C15/e2e/{level}/{direction}/extra_delay", dict(case=list(case), note="transfer waits for a timer that is absurdly far away: " + str(e)))
    conns = out["conns"]
    limits = [(level, L)] + ([tuple(second)] if second else [])
    ctx.count(case, nconn >= 2 or bool(second), sample=dict(level=level, direction=direction, limit=L, connections=nconn, users=nusers,
                                                         size=size, block=block, second_limit=second, login_choreography=choreo,
                                                         durations=[round(r["done"], 3) for r in conns]),
              classes=["level_" + level, "dir_" + direction, "conns_%d" % nconn, "choreo_" + choreo] + (["two_limits"] if second else []))
    detail = dict(case=list(case))
    for lv, lim in limits:
        if lv in ("server",):
            groups = [lambda r: True]
        elif lv in ("user",):
            groups = [(lambda u: (lambda r: r["user"] == u))(u) for u in range(nusers)]
        else:
            groups = [(lambda i: (lambda r: r["i"] == i))(i) for i in range(-1, nconn)]
        for g in groups:
            members = [r for r in conns if g(r)]
            if not members:
                continue
            atomic = choreo == "atomic"
            # sender-side timestamps exist only for the writing side; for a read limit we see the peer's writes,
            # which the reader's back pressure does not delay at this layer: use the completion time instead
            if (direction == "down") == (lv != "client") or True:
                ev = scope_events(conns, lv, direction, g)
            if not ev:
                continue
            nstreams = 2 * len(members)
            slack = nstreams * (block + 256) + 64
            writer_limited = (direction == "down" and lv != "client") or (direction == "up" and lv == "client")
            if writer_limited:
                t0 = ev[0][0]
                cum = 0
                for t, n in ev:
                    if cum > lim * (t - t0) + slack + 1e-6 * cum:
                        raise Violation(f"C15/e2e/{lv}/{direction}/runs_ahead_of_limit",
                                        dict(detail, scope_level=lv, limit=lim, at=t - t0, bytes_before=cum, allowed=lim * (t - t0) + slack))
                    cum += n
                total = cum
                dur = ev[-1][0] - t0
                if atomic and len(limits) == 1 and dur > total / lim + slack / lim + 1e-6:
                    raise Violation(f"C15/e2e/{lv}/{direction}/extra_delay",
                                    dict(detail, scope_level=lv, limit=lim, duration=dur, bound=total / lim + slack / lim, bytes=total))
            else:
                # reader-limited scope: the reader consumes no faster than the limit, so the transfer cannot finish
                # before (payload bytes - slack) / limit after its first byte was offered
                payload = size * len([r for r in members if not r.get("helper")])
                # the reader's first limited I/O is the read call it starts right after accepting the control connection
                t_first = min(r["ctrl"].accepted_at if r["ctrl"].accepted_at is not None else r["ctrl"].opened_at for r in members)
                t_done = max(r["done"] for r in members)
                if payload > slack and (t_done - t_first) < (payload - slack) / lim - 1e-6:
                    raise Violation(f"C15/e2e/{lv}/{direction}/runs_ahead_of_limit",
                                    dict(detail, scope_level=lv, limit=lim, duration=t_done - t_first, minimum=(payload - slack) / lim))
                total = sum(n for _t, n in ev)
                if atomic and len(limits) == 1 and (t_done - t_first) > (total + 400 * len(members)) / lim + slack / lim + 1e-6:
                    raise Violation(f"C15/e2e/{lv}/{direction}/extra_delay",
                                    dict(detail, scope_level=lv, limit=lim, duration=t_done - t_first, bytes=total))


def part_e2e(ctx):
    n = 200 if ctx.tier == "quick" else 2000
    hyp_run(ctx, E2E, lambda c: check_e2e(ctx, c), n, name="e2e")


def replay_e2e(case):
    from vlib.runner import Ctx
    c = list(case)
    if c[7] is not None:
        c[7] = tuple(c[7])
    if len(c) == 8:
        c.append("atomic")
    check_e2e(Ctx(PROPERTY, "e2e", "quick", 0, 0, 1), tuple(c))


# ---------------------------------------------------------------- re-login on a session that already has a data connection
async def _relogin(loop, la, lb, direction, connect_first, size):
    loop.net.record_writes = True
    loop.net.fixed_latency = 0.0
    loop.net.fixed_segment = 1 << 30
    key = ("write" if direction == "down" else "read") + "_speed_limit"
    users = [aioftp.User("a", "p", **({key: la} if la else {})), aioftp.User("b", "p", **({key: lb} if lb else {}))]
    server = aioftp.Server(users, path_io_factory=aioftp.MemoryPathIO, block_size=256)
    await server.start(HOST, PORT)
    harness.mem_populate(server, {"/": DIR, "/f": bytes(i % 251 for i in range(size))})
    raw = harness.Raw(HOST, PORT, patience=5000)
    await raw.connect()
    await raw.cmd("USER a")
    await raw.cmd("PASS p")
    await raw.cmd("EPSV")
    dsock = None
    if connect_first:
        dsock = await raw.open_data()
        await asyncio.sleep(0.05)
    await raw.cmd("USER b")
    t_b = loop.time()
    await raw.cmd("PASS p")
    if dsock is None:
        dsock = await raw.open_data()
        await asyncio.sleep(0.05)
    t_cmd = loop.time()
    code, _ = await raw.cmd("RETR /f" if direction == "down" else "STOR /up")
    if code != "150":
        raise Violation("C15/relogin/harness_transfer_refused", dict(code=code))
    if direction == "down":
        data, eof = await harness.read_all(dsock[0], 5000)
        dsock[1].close()
    else:
        payload = bytes(i % 251 for i in range(size))
        for k in range(0, size, 256):
            dsock[1].write(payload[k:k + 256])
        dsock[1].close()
    code2, _ = await raw.reply()
    t_done = loop.time()
    ctrl_s = raw.w.transport.peer
    data_s = dsock[1].transport.peer
    raw.close()
    await asyncio.wait_for(server.close(), 1000)
    return dict(t_b=t_b, t_cmd=t_cmd, t_done=t_done, done=code2, ctrl_writes=list(ctrl_s.write_log or []), data_writes=list(data_s.write_log or []))


def relogin_cases(tier):
    out = []
    for la, lb in ((None, 2000), (2000, None), (50000, 1500), (1500, 50000), (None, 700)):
        for direction in ("down", "up"):
            for connect_first in (True, False):
                for size in ((6000,) if tier == "quick" else (6000, 300, 20000)):
                    out.append((la, lb, direction, connect_first, size))
    return out


def judge_relogin(case, out):
    la, lb, direction, connect_first, size = case
    detail = dict(limit_first_user=la, limit_second_user=lb, direction=direction, data_connection_before_relogin=connect_first, size=size,
                  duration=out["t_done"] - out["t_cmd"])
    slack = 2 * (256 + 256) + 64
    dur = out["t_done"] - out["t_cmd"]
    if out["done"] != "226":
        raise Violation("C15/relogin/transfer_failed", detail)
    if lb:
        # the transfer runs as user b: b's limit bounds it (anchored at b's login, when b's throttle joined the session)
        if direction == "down":
            ev = sorted([e for e in out["ctrl_writes"] + out["data_writes"] if e[0] >= out["t_b"]])
            t0 = ev[0][0] if ev else out["t_b"]
            cum = 0
            for t, n in ev:
                if cum > lb * (t - t0) + slack:
                    raise Violation("C15/relogin/down/runs_ahead_of_the_new_users_limit",
                                    dict(detail, at=t - t0, bytes_before=cum, allowed=lb * (t - t0) + slack))
                cum += n
        else:
            if size > slack and (out["t_done"] - out["t_b"]) < (size - slack) / lb - 1e-6:
                raise Violation("C15/relogin/up/runs_ahead_of_the_new_users_limit", dict(detail, minimum=(size - slack) / lb))
        if dur > (size + 600) / lb + slack / lb + 1e-6:
            raise Violation(f"C15/relogin/{direction}/extra_delay", dict(detail, bound=(size + 600) / lb + slack / lb))
    else:
        # user b has no limit: the previous user's limit must not slow the transfer down
        if dur > 0.5:
            raise Violation(f"C15/relogin/{direction}/delayed_by_the_previous_users_limit", detail)


def part_relogin(ctx):
    for case in relogin_cases(ctx.tier)[ctx.shard::ctx.nshards]:
        out = simnet.run(lambda loop: _relogin(loop, *case))
        ctx.count(case, True, sample=dict(limit_first_user=case[0], limit_second_user=case[1], direction=case[2],
                                          data_connection_before_relogin=case[3], size=case[4], duration=round(out["t_done"] - out["t_cmd"], 3)),
                  classes=["dir_" + case[2], "connect_first_%s" % case[3]])
        try:
            judge_relogin(case, out)
        except Violation as v:
            ctx.fail(v.sig, dict(kind="relogin", case=list(case)), v.detail)


def replay_relogin(case):
    c = tuple(case["case"])
    judge_relogin(c, simnet.run(lambda loop: _relogin(loop, *c)))


# ---------------------------------------------------------------- a limit switched on while sessions exist
async def _setter(loop, direction, level, n_before, L, size):
    loop.net.fixed_latency = 0.0
    loop.net.fixed_segment = 1 << 30
    server = aioftp.Server(path_io_factory=aioftp.MemoryPathIO, block_size=256)
    await server.start(HOST, PORT)
    payload = bytes(i % 251 for i in range(size))
    harness.mem_populate(server, {"/": DIR, **{"/f%d" % i: payload for i in range(n_before + 1)}})
    clients = []
    for i in range(n_before):
        c = aioftp.Client(path_io_factory=aioftp.MemoryPathIO)
        await c.connect(HOST, PORT)
        await c.login()
        clients.append(c)
    attr = "write" if direction == "down" else "read"
    target = server.throttle_per_connection if level == "per_connection" else server.throttle
    getattr(target, attr).limit = L
    late = aioftp.Client(path_io_factory=aioftp.MemoryPathIO)
    await late.connect(HOST, PORT)
    await late.login()
    clients.append(late)

    async def one(i, c):
        t0 = loop.time()
        if direction == "down":
            async with c.download_stream("/f%d" % i) as st_:
                data = await st_.read()
            ok = data == payload
        else:
            async with c.upload_stream("/u%d" % i) as st_:
                for k in range(0, size, 256):
                    await st_.write(payload[k:k + 256])
            ok = True
        return loop.time() - t0, ok

    res = await asyncio.gather(*[one(i, c) for i, c in enumerate(clients)])
    for c in clients:
        c.close()
    await asyncio.wait_for(server.close(), 1000)
    return dict(durations=[r[0] for r in res], ok=all(r[1] for r in res))


def setter_cases(tier):
    out = []
    for direction in ("down", "up"):
        for level in ("per_connection", "server"):
            for n_before in (1, 2, 3):
                for L, size in ((2000, 6000), (500, 2000)) + (((10000, 30000),) if tier == "thorough" else ()):
                    out.append((direction, level, n_before, L, size))
    return out


def judge_setter(case, out):
    direction, level, n_before, L, size = case
    detail = dict(direction=direction, level=level, sessions_connected_before_the_setter=n_before, limit=L, size=size,
                  durations=[round(d, 3) for d in out["durations"]])
    if not out["ok"]:
        raise Violation(f"C15/setter/{direction}/bytes_differ", detail)
    n = n_before + 1
    slack = (3 * 256 + 600) / L
    if level == "per_connection":
        # per-connection limits are independent: no stream may take longer than its own size / L (it may be faster: whether
        # a limit set later reaches a stream that already exists is not specified)
        for d in out["durations"]:
            if d > size / L + slack + 1e-6:
                raise Violation(f"C15/setter/{direction}/per_connection_limits_not_independent", dict(detail, bound=size / L + slack))
        # the session connected after the setter is limited
        if size > 3 * 256 and out["durations"][-1] < (size - 3 * 256 - 600) / L - 1e-6:
            raise Violation(f"C15/setter/{direction}/new_session_runs_ahead_of_the_limit", dict(detail, minimum=(size - 3 * 256 - 600) / L))
    else:
        # a shared limit bounds the sum: all n streams together need at least (n * size - slack bytes) / L
        total = n * size
        if max(out["durations"]) < (total - n * (3 * 256) - 600) / L - 1e-6:
            raise Violation(f"C15/setter/{direction}/shared_limit_overrun", dict(detail, minimum=(total - n * 768 - 600) / L))
        if max(out["durations"]) > total / L + n * slack + 1e-6:
            raise Violation(f"C15/setter/{direction}/extra_delay", dict(detail, bound=total / L + n * slack))


def part_setter(ctx):
    for case in setter_cases(ctx.tier)[ctx.shard::ctx.nshards]:
        out = simnet.run(lambda loop: _setter(loop, *case))
        ctx.count(case, True, sample=dict(direction=case[0], level=case[1], sessions_before_setter=case[2], limit=case[3], size=case[4],
                                          durations=[round(d, 3) for d in out["durations"]]), classes=["setter_" + case[1], "setter_" + case[0]])
        try:
            judge_setter(case, out)
        except Violation as v:
            ctx.fail(v.sig, dict(kind="setter", case=list(case)), v.detail)


def replay_setter(case):
    c = tuple(case["case"])
    judge_setter(c, simnet.run(lambda loop: _setter(loop, *c)))


# ---------------------------------------------------------------- USER for another account while a transfer runs
async def _midtransfer(loop, direction, level, other, L, size):
    """A transfer that is under way completes under the limits it started with (RFC 959: "completed under the old access
    control parameters"): a USER line for another - or the same - account must not change its pace."""
    loop.net.fixed_latency = 0.0
    loop.net.fixed_segment = 1 << 30
    key = ("write" if direction == "down" else "read") + "_speed_limit" + ("_per_connection" if level == "user_connection" else "")
    users = [aioftp.User("a", "p", **{key: L}), aioftp.User("b", "q")]
    server = aioftp.Server(users, path_io_factory=aioftp.MemoryPathIO, block_size=256)
    await server.start(HOST, PORT)
    payload = bytes(i % 251 for i in range(size))
    harness.mem_populate(server, {"/": DIR, "/f": payload})
    raw = harness.Raw(HOST, PORT, patience=5000)
    await raw.connect()
    await raw.cmd("USER a")
    await raw.cmd("PASS p")
    await raw.cmd("EPSV")
    dr, dw = await raw.open_data()
    await asyncio.sleep(0.05)
    t0 = loop.time()
    code, _ = await raw.cmd("RETR /f" if direction == "down" else "STOR /up")
    if code != "150":
        raise Violation("C15/midtransfer/harness_transfer_refused", dict(code=code))
    got = 0
    if direction == "down":
        got += len(await dr.read(256))
    else:
        dw.write(payload[:256])
        await asyncio.sleep(0.01)
    codes = []
    for _ in range(other[1]):
        codes.append((await raw.cmd("USER " + other[0]))[0])
    if direction == "down":
        data, eof = await harness.read_all(dr, 5000)
        got += len(data)
        dw.close()
    else:
        for k in range(256, size, 256):
            dw.write(payload[k:k + 256])
        dw.close()
    done, _ = await raw.reply()
    dur = loop.time() - t0
    raw.close()
    await asyncio.wait_for(server.close(), 1000)
    return dict(duration=dur, done=done, user_replies=codes)


def midtransfer_cases(tier):
    out = []
    for direction in ("down", "up"):
        for level in ("user", "user_connection"):
            for other in (("b", 1), ("a", 1), ("a", 4), ("nobody", 1)):
                for L, size in ((2000, 8000),) + (((500, 3000),) if tier == "thorough" else ()):
                    out.append((direction, level, other, L, size))
    return out


def judge_midtransfer(case, out):
    direction, level, other, L, size = case
    detail = dict(direction=direction, level=level, user_line_sent_during_transfer=other[0], times=other[1], limit=L, size=size, **out)
    if out["done"] != "226":
        raise Violation(f"C15/midtransfer/{direction}/transfer_failed", detail)
    minimum = (size - 3 * 256 - 600) / L
    if out["duration"] < minimum - 1e-6:
        raise Violation(f"C15/midtransfer/{direction}/limit_of_the_running_transfer_dropped_by_USER", dict(detail, minimum=minimum))


def part_midtransfer(ctx):
    for case in midtransfer_cases(ctx.tier)[ctx.shard::ctx.nshards]:
        out = simnet.run(lambda loop: _midtransfer(loop, *case))
        ctx.count(case, True, sample=dict(direction=case[0], level=case[1], user_line=case[2][0], times=case[2][1], limit=case[3], size=case[4],
                                          duration=round(out["duration"], 3)), classes=["midtransfer_" + case[0]])
        try:
            judge_midtransfer(case, out)
        except Violation as v:
            ctx.fail(v.sig, dict(kind="midtransfer", case=[case[0], case[1], list(case[2]), case[3], case[4]]), v.detail)


def replay_midtransfer(case):
    c = case["case"]
    c = (c[0], c[1], tuple(c[2]), c[3], c[4])
    judge_midtransfer(c, simnet.run(lambda loop: _midtransfer(loop, *c)))


def plan(tier):
    return [("api", 8), ("e2e", 6), ("relogin", 2), ("setter", 2), ("midtransfer", 2)]

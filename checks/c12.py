"""C12 - a session that ends, at any point and for any reason, releases everything it held.

Enumerated cut families on simnet (script corpus x cut position):
  peer_vanishes   (i)   every socket of the peer is closed just before delivery event k
  write_then_fin  (ii)  the peer closes everything right after its j-th control-channel write
  server_close    (iii) Server.close() is called just before delivery event k
  align           (iv)  iteration-indexed sweep of (control FIN | Server.close()) against a data connect
plus Hypothesis-sampled schedule tapes / backend delays / a concurrent neighbour session (tapes part).
Oracle: resource ledger.
"""

import asyncio
import itertools

from hypothesis import strategies as st

from vlib import harness, simnet
from vlib.harness import PORT, aioftp, instrument, ledger
from vlib.runner import Violation, hyp_run
from vlib.scripts import CORPUS, ScriptRunner, render

PROPERTY = "C12"
LEVEL = "fault_enumeration"
RULE = ("enumeration: for every script of the corpus, a dry run counts N network delivery events and J control "
        "writes; then one run per cut position k=1..N (peer vanishes; Server.close()) and j=1..J (write then FIN), "
        "plus a 14x14 iteration-indexed alignment sweep of session end vs. data connect; tapes part: Hypothesis "
        "draws (script, family, k, schedule tape, backend delays, neighbour session). Non-trivial = the cut falls "
        "while a transfer task, a passive listener or an unused data connection exists on the server; "
        "distinct by (script, family, k, tape hash).")
ASSUMPTIONS = [
    "simnet network model (DESIGN 2.1): only TCP-legal behaviours; calibrated by running the repo test-suite on it",
    "all timeouts None except wait_future_timeout=2: releases must happen without further input",
    "exhaustive only with respect to the scripts of the corpus and the default (zero-latency) tape",
]
REPLAY_ATTEMPTS = 3

SCRIPTS_QUICK = ["tour", "pasv_after", "unused_data", "errors"]
SCRIPTS_ALL = sorted(CORPUS)


def _nontrivial_state(server):
    for conn in list(getattr(server, "connections", {}).values()):
        try:
            if conn.extra_workers:
                return "transfer_task"
            if conn.future.passive_server.done():
                return "listener"
            if conn.future.data_connection.done():
                return "unused_data"
        except Exception:  # noqa
            pass
    return None


NETMODES = {"zero": (None, None), "lat1ms": (0.001, None), "seg7": (None, 7), "lat20ms_seg50": (0.02, 50),
            "slowio": (0.001, None), "throttled": (0.001, None)}
SLOWIO = {"_open": 0.3, "read": 0.2, "write": 0.2, "list.next": 0.2, "stat": 0.1, "close": 0.1, "seek": 0.1}


async def _scenario(loop, script_name, family, k, *, neighbour=None, delays=None, backend="mem", tmp=None,
                    data_ports=None, netmode="zero"):
    if netmode != "zero":
        loop.net.fixed_latency, loop.net.fixed_segment = NETMODES[netmode]
        if loop.net.fixed_latency is None:
            loop.net.fixed_latency = 0.0
        if loop.net.fixed_segment is None:
            loop.net.fixed_segment = 1 << 30
    ctl = harness.Ctl()
    ctl.record = False
    if delays:
        ctl.delays = dict(delays)
    if netmode == "slowio":
        ctl.delays = dict(SLOWIO)
    fac = instrument(harness.BACKENDS[backend], ctl)
    kw = {}
    if backend != "mem":
        kw["base_path"] = tmp
    users = [aioftp.User(**kw)]
    # "throttled": speed limits low enough that a transfer spends most of its time waiting for its throttles
    limits = dict(read_speed_limit=100, write_speed_limit=100) if netmode == "throttled" else {}
    server = aioftp.Server(users, path_io_factory=fac, wait_future_timeout=2, block_size=256,
                           data_ports=data_ports, **limits)
    await server.start(harness.HOST, PORT)
    victim = ScriptRunner(render(CORPUS[script_name], "/v"))
    info = dict(state_at_cut=None, cut_done=False, step_at_cut=None, events=0, writes=0)

    def victim_transports():
        ws = [victim.raw.w] + list(victim.all_writers)
        return [w.transport for w in ws if w is not None]

    def do_cut():
        if info["cut_done"]:
            return
        info["cut_done"] = True
        info["state_at_cut"] = _nontrivial_state(server)
        info["step_at_cut"] = victim.step
        if family == "server_close":
            info["close_task"] = asyncio.ensure_future(server.close())
        elif family == "write_then_rst":
            for t in victim_transports():
                t.abort()
        else:
            for t in victim_transports():
                t.close()

    if family in ("peer_vanishes", "server_close") and k is not None:
        def hook(n, kind, tr):
            if n == k:
                do_cut()
        loop.net.event_hooks.append(hook)
    if family in ("write_then_fin", "write_then_rst") and k is not None:
        orig_send = victim.raw.send

        def send(line):
            orig_send(line)
            info["writes"] += 1
            if info["writes"] == k:
                do_cut()
        victim.raw.send = send
    else:
        orig_send = victim.raw.send

        def send(line):
            orig_send(line)
            info["writes"] += 1
        victim.raw.send = send

    tasks = [asyncio.ensure_future(victim.run())]
    other = None
    if neighbour:
        other = ScriptRunner(render(CORPUS[neighbour], "/n"))
        tasks.append(asyncio.ensure_future(other.run()))
    done, pending = await asyncio.wait(tasks, timeout=5000)
    if pending:
        for t in pending:
            t.cancel()
        raise Violation(f"C12/{family}/harness_session_hung", dict(script=script_name, k=k))
    if k is None:
        # dry run: normal end of script (QUIT or just EOF from our side)
        victim.close()
    else:
        victim.close()  # whatever the script still holds goes away too: the peer is gone
    if other:
        other.close()
    # no timer is involved in a teardown: one virtual second covers the slowest FIN on any tape
    await asyncio.sleep(1.0)
    info["events"] = loop.net.events
    me = asyncio.current_task()

    def tasks_left():
        left = [t for t in asyncio.all_tasks(loop) if t is not me and not t.done()]
        return sorted({getattr(t.get_coro(), "__qualname__", "?") for t in left})

    leaks = ledger(loop, server, PORT, expect_main_listener=(family != "server_close" or not info["cut_done"]))
    if ctl.open_handles != 0:
        leaks["backend_handles_open"] = ctl.open_handles
    if "close_task" not in info and tasks_left():
        leaks["session_tasks_left"] = tasks_left()
    if data_ports is not None:
        pool = sorted(p for _pr, p in server.available_data_ports._queue)
        if pool != sorted(data_ports):
            leaks["port_pool"] = pool
    # closing the server must complete and leave nothing behind
    if "close_task" in info:
        closer = info["close_task"]
    else:
        closer = asyncio.ensure_future(server.close())
    done, pending = await asyncio.wait([closer], timeout=100000)
    if pending:
        leaks["server_close_hangs"] = True
    for _ in range(5):
        await asyncio.sleep(0)
    after = ledger(loop, server, PORT, expect_main_listener=False)
    for key, v in after.items():
        leaks.setdefault("after_close." + key, v)
    if tasks_left():
        leaks["after_close.tasks_left"] = tasks_left()
    return leaks, info, victim


def run_case(script_name, family, k, tape=(), **kw):
    with harness.TempDirs() as td:
        tmp = td.new() if kw.get("backend", "mem") != "mem" else None
        return simnet.run(lambda loop: _scenario(loop, script_name, family, k, tmp=tmp, **kw), tape)


def verdict(script_name, family, k, leaks, info, victim, extra=None):
    if not leaks:
        return
    step = info.get("step_at_cut")
    line = None
    if step is not None and 0 <= step < len(victim.script):
        line = victim.script[step].get("line") or victim.script[step].get("xfer")
    verb = (line or "?").split(" ")[0].upper()
    kinds = "+".join(sorted(x.replace("after_close.", "") for x in leaks))
    sig = f"C12/{family}/{kinds}/during={verb}"
    raise Violation(sig, dict(script=script_name, family=family, k=k, leaks=leaks, step=step, line=line,
                              state_at_cut=info.get("state_at_cut"), **(extra or {})))


def _case_list(tier):
    cases = []
    for mode in NETMODES:
        scripts = SCRIPTS_ALL
        if tier == "quick" and mode != "zero":
            scripts = ["tour", "unused_data"] if mode == "lat1ms" else (["tour", "restart"] if mode == "slowio" else
                                                                      (["tour"] if mode == "throttled" else []))
        for s in scripts:
            leaks, info, victim = run_case(s, "peer_vanishes", None, netmode=mode)
            if leaks:
                cases.append((s, "dry", None, mode))
            n_events, n_writes = info["events"], info["writes"]
            for k in range(1, n_events + 1):
                cases.append((s, "peer_vanishes", k, mode))
                cases.append((s, "server_close", k, mode))
            for j in range(1, n_writes + 1):
                cases.append((s, "write_then_fin", j, mode))
                if mode in ("zero", "lat1ms"):
                    cases.append((s, "write_then_rst", j, mode))
    return cases


def part_enumerate(ctx):
    cases = _case_list(ctx.tier)
    ctx.extra["positions_total"] = len(cases) if ctx.shard == 0 else 0
    for s, family, k, mode in cases[ctx.shard::ctx.nshards]:
        fam = "peer_vanishes" if family == "dry" else family
        leaks, info, victim = run_case(s, fam, k, netmode=mode)
        nt = info.get("state_at_cut") is not None
        ctx.count((s, family, k, mode), nt, sample=dict(script=s, family=family, k=k, net=mode, during=info.get("step_at_cut"),
                                                         server_state_at_cut=info.get("state_at_cut")),
                  classes=[family, "net_" + mode, "state_" + str(info.get("state_at_cut"))])
        try:
            verdict(s, family, k, leaks, info, victim)
        except Violation as v:
            ctx.fail(v.sig, dict(kind="enum", script=s, family=fam, k=k, tape=[], netmode=mode), v.detail)
    ctx.exhaustive = False


# ---------------------------------------------------------------- alignment sweep (family iv)
async def _align(loop, how, n_end, n_conn, passive, with_ports):
    data_ports = [40100, 40101] if with_ports else None
    server = aioftp.Server(path_io_factory=aioftp.MemoryPathIO, block_size=4, wait_future_timeout=2,
                           data_ports=data_ports)
    await server.start(harness.HOST, PORT)
    raw = harness.Raw()
    await raw.connect()
    await raw.cmd("USER anonymous")
    code, _ = await raw.cmd(passive)
    assert code in ("227", "229"), code
    await asyncio.sleep(0.1)
    it = [0]
    pend = {}
    stop = [False]

    def ticker():
        it[0] += 1
        for f in pend.pop(it[0], []):
            f()
        if not stop[0] and pend:
            loop.call_soon(ticker)

    def end():
        if how == "peer":
            raw.w.close()
        else:
            pend_close.append(asyncio.ensure_future(server.close()))

    pend_close = []
    dconns = []

    def conn():
        dconns.append(asyncio.ensure_future(asyncio.open_connection(harness.HOST, raw.passive_port)))

    pend.setdefault(n_end, []).append(end)
    pend.setdefault(n_conn, []).append(conn)
    loop.call_soon(ticker)
    await asyncio.sleep(10)
    stop[0] = True
    leaks = ledger(loop, server, PORT, expect_main_listener=(how == "peer"))
    if data_ports is not None:
        pool = sorted(p for _pr, p in server.available_data_ports._queue)
        if pool != sorted(data_ports):
            leaks["port_pool"] = pool
    closer = pend_close[0] if pend_close else asyncio.ensure_future(server.close())
    done, pending = await asyncio.wait([closer], timeout=100000)
    if pending:
        leaks["server_close_hangs"] = True
    await asyncio.sleep(2)
    for key, v in ledger(loop, server, PORT, expect_main_listener=False).items():
        leaks.setdefault("after_close." + key, v)
    for d in dconns:
        if d.done() and not d.cancelled() and d.exception() is None:
            d.result()[1].close()
        else:
            d.cancel()
    return leaks


def run_align(how, a, b, passive="EPSV", with_ports=False):
    return simnet.run(lambda loop: _align(loop, how, a, b, passive, with_ports))


def part_align(ctx):
    rng = range(1, 15)
    cases = [(how, a, b, p, wp) for how in ("peer", "shutdown") for p in ("EPSV", "PASV") for wp in (False, True)
             for a in rng for b in rng]
    if ctx.tier == "quick":
        cases = [c for c in cases if c[2:4] != ("PASV",) and (c[3] == "EPSV")]
    for how, a, b, p, wp in cases[ctx.shard::ctx.nshards]:
        leaks = run_align(how, a, b, p, wp)
        ctx.count(("align", how, a, b, p, wp), True,
                  sample=dict(end=how, end_at_iteration=a, data_connect_at_iteration=b, passive=p, data_ports=wp),
                  classes=["align_" + how])
        if leaks:
            kinds = "+".join(sorted(x.replace("after_close.", "") for x in leaks))
            ctx.fail(f"C12/align_{how}/{kinds}", dict(kind="align", how=how, a=a, b=b, passive=p, with_ports=wp),
                     dict(leaks=leaks))


# ---------------------------------------------------------------- sampled tapes / neighbours / delays
TAPE = st.lists(st.integers(0, 255), max_size=60)
DELAYS = st.dictionaries(st.sampled_from(["read", "write", "list.next", "_open", "stat", "exists"]),
                         st.sampled_from([0.001, 0.05, 0.7]), max_size=2)
SAMPLED = st.tuples(st.sampled_from(SCRIPTS_ALL), st.sampled_from(["peer_vanishes", "server_close", "write_then_fin", "write_then_rst"]),
                    st.integers(1, 400), TAPE, DELAYS, st.sampled_from([None, None, "tour", "pasv_after"]),
                    st.sampled_from(["mem", "mem", "fs", "afs"]), st.booleans())


def check_sampled(ctx, case):
    s, family, k, tape, delays, neighbour, backend, ports = case
    if family in ("write_then_fin", "write_then_rst"):
        k = 1 + (k % 24)
    data_ports = [40100, 40101, 40102] if ports else None
    leaks, info, victim = run_case(s, family, k, tape, neighbour=neighbour, delays=delays, backend=backend,
                                   data_ports=data_ports)
    nt = info.get("state_at_cut") is not None
    ctx.count(case, nt, sample=dict(script=s, family=family, k=k, tape=tape[:12], delays=delays, neighbour=neighbour,
                                    backend=backend, server_state_at_cut=info.get("state_at_cut")),
              classes=[family, "cut_" + str(info["cut_done"]), "nb_" + str(neighbour), "be_" + backend,
                       "state_" + str(info.get("state_at_cut"))])
    verdict(s, family, k, leaks, info, victim)


def part_tapes(ctx):
    n = 400 if ctx.tier == "quick" else 20000
    hyp_run(ctx, SAMPLED, lambda c: check_sampled(ctx, c), n, name="tapes")


def replay_tapes(case):
    from vlib.runner import Ctx
    check_sampled(Ctx(PROPERTY, "tapes", "quick", 0, 0, 1), tuple(case))


def replay_enumerate(case):
    leaks, info, victim = run_case(case["script"], case["family"], case["k"], case.get("tape") or (),
                                   netmode=case.get("netmode", "zero"))
    verdict(case["script"], case["family"], case["k"], leaks, info, victim)


def replay_align(case):
    leaks = run_align(case["how"], case["a"], case["b"], case.get("passive", "EPSV"), case.get("with_ports", False))
    if leaks:
        kinds = "+".join(sorted(x.replace("after_close.", "") for x in leaks))
        raise Violation(f"C12/align_{case['how']}/{kinds}", dict(leaks=leaks))


# ---------------------------------------------------------------- session end vs. listener start-up
async def _pstart(loop, how, n_end, passive, with_ports, ticks_bind):
    data_ports = [40100, 40101] if with_ports else None
    server = aioftp.Server(path_io_factory=aioftp.MemoryPathIO, wait_future_timeout=2, data_ports=data_ports)
    await server.start(harness.HOST, PORT)
    raw = harness.Raw()
    await raw.connect()
    await raw.cmd("USER anonymous")
    it = [0]
    pend = {}
    closers = []

    def ticker():
        it[0] += 1
        for f in pend.pop(it[0], []):
            f()
        if pend:
            loop.call_soon(ticker)

    def end():
        if how == "peer":
            raw.w.close()
        else:
            closers.append(asyncio.ensure_future(server.close()))

    pend.setdefault(n_end + 1, []).append(end)
    raw.send(passive)
    loop.call_soon(ticker)
    await asyncio.sleep(10)
    raw.close()
    await asyncio.sleep(1)
    leaks = ledger(loop, server, PORT, expect_main_listener=(how == "peer"))
    if data_ports is not None:
        pool = sorted(p for _pr, p in server.available_data_ports._queue)
        if pool != sorted(data_ports):
            leaks["port_pool"] = pool
    closer = closers[0] if closers else asyncio.ensure_future(server.close())
    done, pending = await asyncio.wait([closer], timeout=100000)
    if pending:
        leaks["server_close_hangs"] = True
    await asyncio.sleep(2)
    for key, v in ledger(loop, server, PORT, expect_main_listener=False).items():
        leaks.setdefault("after_close." + key, v)
    return leaks


def run_pstart(how, n, passive, with_ports):
    return simnet.run(lambda loop: _pstart(loop, how, n, passive, with_ports, 0))


def part_pstart(ctx):
    cases = [(how, n, p, wp) for how in ("peer", "shutdown") for p in ("EPSV", "PASV") for wp in (False, True)
             for n in range(0, 16)]
    for how, n, p, wp in cases[ctx.shard::ctx.nshards]:
        leaks = run_pstart(how, n, p, wp)
        ctx.count(("pstart", how, n, p, wp), True,
                  sample=dict(end=how, end_n_iterations_after_passive_command_sent=n, passive=p, data_ports=wp),
                  classes=["pstart_" + how])
        if leaks:
            kinds = "+".join(sorted(x.replace("after_close.", "") for x in leaks))
            ctx.fail(f"C12/pstart_{how}/{kinds}", dict(kind="pstart", how=how, n=n, passive=p, with_ports=wp),
                     dict(leaks=leaks))


def replay_pstart(case):
    leaks = run_pstart(case["how"], case["n"], case["passive"], case["with_ports"])
    if leaks:
        kinds = "+".join(sorted(x.replace("after_close.", "") for x in leaks))
        raise Violation(f"C12/pstart_{case['how']}/{kinds}", dict(leaks=leaks))


# ---------------------------------------------------------------- Server.close() while a connection is being accepted
async def _accept_race(loop, n_close, others, accept_delay):
    """A client starts to connect; Server.close() is called n loop iterations later.  The client never leaves by itself:
    whatever the server accepted must be gone when close() has returned."""
    if accept_delay:
        loop.net.fixed_latency = accept_delay
    server = aioftp.Server(path_io_factory=aioftp.MemoryPathIO, wait_future_timeout=2)
    await server.start(harness.HOST, PORT)
    olds = []
    for _ in range(others):
        r = harness.Raw()
        await r.connect()
        await r.cmd("USER anonymous")
        olds.append(r)
    left = [n_close]
    closers = []
    keep = []

    def tick():
        if left[0] == 0:
            closers.append(asyncio.ensure_future(server.close()))
            return
        left[0] -= 1
        loop.call_soon(tick)

    async def newcomer():
        try:
            keep.append(await asyncio.open_connection(harness.HOST, PORT))
        except OSError:
            pass

    asyncio.ensure_future(newcomer())
    loop.call_soon(tick)
    while not closers:
        await asyncio.sleep(0.001)
    done, pending = await asyncio.wait(closers, timeout=100000)
    leaks = {}
    if pending:
        leaks["server_close_hangs"] = True
    await asyncio.sleep(5)
    for key, v in ledger(loop, server, PORT, expect_main_listener=False).items():
        leaks["after_close." + key] = v
    for r in olds:
        r.close()
    for _r, w in keep:
        w.close()
    return leaks


def part_accept(ctx):
    cases = [(n, others, d) for others in (0, 2) for d in (0, 0.001) for n in range(0, 14)]
    for n, others, d in cases[ctx.shard::ctx.nshards]:
        leaks = simnet.run(lambda loop: _accept_race(loop, n, others, d))
        ctx.count(("accept", n, others, d), True, sample=dict(server_close_n_iterations_after_connect_started=n, other_sessions=others,
                                                            accept_delay=d), classes=["accept_race"])
        if leaks:
            kinds = "+".join(sorted(x.replace("after_close.", "") for x in leaks))
            ctx.fail(f"C12/accept_race/{kinds}", dict(kind="accept", n=n, others=others, accept_delay=d), dict(leaks=leaks))


def replay_accept(case):
    leaks = simnet.run(lambda loop: _accept_race(loop, case["n"], case["others"], case["accept_delay"]))
    if leaks:
        kinds = "+".join(sorted(x.replace("after_close.", "") for x in leaks))
        raise Violation(f"C12/accept_race/{kinds}", dict(leaks=leaks))


# ---------------------------------------------------------------- the peer vanishes while the session is flushing its last replies
async def _drain(loop, how, nreplies, vanish_after, mode):
    """QUIT (or another session-ending reply) is queued behind replies that are still being written - slowly, because of a
    write speed limit, or not at all, because the peer does not read - and then the peer disappears."""
    kw = dict(write_speed_limit=20) if mode == "throttled" else {}
    server = aioftp.Server(path_io_factory=aioftp.MemoryPathIO, wait_future_timeout=2, data_ports=[40100, 40101],
                           maximum_connections=2, **kw)
    loop.net.fixed_latency = 0.001
    await server.start(harness.HOST, PORT)
    pending_replies = False
    # (mode "plain": nothing slows the replies down; whether the writer's failure or the QUIT is noticed first then depends on
    #  the order in which the dispatcher visits its finished tasks - a set - so the session is repeated)
    for _rep in range(12 if mode == "plain" else 1):
        r, w = await asyncio.open_connection(harness.HOST, PORT)
        await asyncio.sleep(0.1)
        if mode == "not_reading":
            w.transport.pause_reading()
            filler = ("X" * 30000 + "\r\n") * nreplies  # unknown verbs, echoed in long 502 replies nobody reads
        else:
            filler = ("SYST\r\n" if mode == "plain" else "PWD\r\n") * nreplies
        w.write(("USER anonymous\r\nPASV\r\n" + filler + "QUIT\r\n").encode())
        await asyncio.sleep(vanish_after)
        pending_replies = pending_replies or len(server.connections) > 0
        if how == "rst":
            w.transport.abort()
        else:
            w.close()
        await asyncio.sleep(1)
    await asyncio.sleep(10)
    leaks = ledger(loop, server, PORT)
    pool = sorted(p_ for _pr, p_ in server.available_data_ports._queue)
    if pool != [40100, 40101]:
        leaks["port_pool"] = pool
    if server.available_connections.value != 2:
        leaks["server_connection_slots"] = server.available_connections.value
    closer = asyncio.ensure_future(server.close())
    done, pending = await asyncio.wait([closer], timeout=100000)
    if pending:
        leaks["server_close_hangs"] = True
    await asyncio.sleep(2)
    for key, v in ledger(loop, server, PORT, expect_main_listener=False).items():
        leaks.setdefault("after_close." + key, v)
    return leaks, pending_replies


def part_drain(ctx):
    cases = [(how, n, after, mode) for how in ("rst", "fin") for mode in ("throttled", "not_reading") for n in (1, 3, 40)
             for after in (0.01, 0.5, 3.0)]
    cases += [(how, n, after, "plain") for how in ("rst", "fin") for n in (1, 2, 3, 5) for after in (0.0, 0.0001, 0.0011, 0.0021)]
    for how, n, after, mode in cases[ctx.shard::ctx.nshards]:
        leaks, pend = simnet.run(lambda loop: _drain(loop, how, n, after, mode))
        ctx.count(("drain", how, n, after, mode), pend, sample=dict(peer_ends_with=how, replies_queued_before_QUIT=n, vanishes_after=after,
                                                                   why_replies_are_pending=mode), classes=["drain_" + mode])
        if leaks:
            kinds = "+".join(sorted(x.replace("after_close.", "") for x in leaks))
            ctx.fail(f"C12/drain/{kinds}", dict(kind="drain", how=how, n=n, after=after, mode=mode), dict(leaks=leaks))


def replay_drain(case):
    leaks, _ = simnet.run(lambda loop: _drain(loop, case["how"], case["n"], case["after"], case["mode"]))
    if leaks:
        kinds = "+".join(sorted(x.replace("after_close.", "") for x in leaks))
        raise Violation(f"C12/drain/{kinds}", dict(leaks=leaks))


# ---------------------------------------------------------------- the same on real sockets (order of finished tasks is not simnet's to choose)
async def _drain_real(nsessions, how):
    import socket
    import struct
    server = aioftp.Server(path_io_factory=aioftp.MemoryPathIO, maximum_connections=nsessions + 5)
    await server.start("127.0.0.1", 0)
    port = server.server_port
    for _ in range(nsessions):
        r, w = await asyncio.open_connection("127.0.0.1", port)
        await r.readline()
        w.write(b"USER anonymous\r\nPASV\r\nSYST\r\nSYST\r\nQUIT\r\n")
        if how == "rst":
            w.get_extra_info("socket").setsockopt(socket.SOL_SOCKET, socket.SO_LINGER, struct.pack("ii", 1, 0))
        w.close()
        await asyncio.sleep(0.005)
    for _ in range(100):  # up to 10 s, but a healthy server is done after the first few polls
        if not server.connections:
            break
        await asyncio.sleep(0.1)
    stuck = len(server.connections)
    slots = server.available_connections.value
    await asyncio.wait_for(server.close(), 30)
    return stuck, slots, nsessions + 5


def part_drain_real(ctx):
    n = 40 if ctx.tier == "quick" else 300
    for how in ("rst", "fin")[ctx.shard::ctx.nshards]:
        stuck, slots, total = asyncio.run(_drain_real(n, how))
        ctx.count(("drain_real", how), True, sample=dict(sessions=n, peer_ends_with=how, still_in_table_after_10s=stuck), classes=["drain_real"])
        if stuck or slots != total:
            ctx.fail("C12/drain_real/connection_table+server_connection_slots", dict(kind="drain_real", how=how, n=n),
                     dict(sessions=n, stuck_sessions=stuck, free_slots=slots, configured=total))


def replay_drain_real(case):
    stuck, slots, total = asyncio.run(_drain_real(case["n"], case["how"]))
    if stuck or slots != total:
        raise Violation("C12/drain_real/connection_table+server_connection_slots", dict(stuck_sessions=stuck))


def part_calibrate(ctx):
    """Thorough tier only: the repository's own suite must still pass on simnet (fidelity of the network model)."""
    from vlib import calibrate
    import io
    import contextlib
    buf = io.StringIO()
    with contextlib.redirect_stdout(buf):
        rc = calibrate.main()
    ctx.evaluations += 1
    ctx.extra["calibration"] = buf.getvalue().strip().splitlines()[0][:200] if buf.getvalue().strip() else "?"
    if rc != 0:
        ctx.harness_errors.append("simnet calibration failed: " + buf.getvalue()[-500:])


def plan(tier):
    p = [("enumerate", 16), ("align", 8), ("pstart", 4), ("accept", 4), ("drain", 4), ("drain_real", 2), ("tapes", 8 if tier == "quick" else 16)]
    if tier == "thorough":
        p.append(("calibrate", 1))
    return p

"""C03 - nothing is served before a completed login; re-USER drops the old login."""

from hypothesis import strategies as st

from vlib import harness, simnet, walk
from vlib.ftpmodel import DIR
from vlib.runner import Violation, hyp_run

PROPERTY = "C03"
LEVEL = "exploration"
RULE = ("Hypothesis draws a user table (7 shapes: anonymous present/absent/with a password, no user at all, 1-3 named users with/without password, "
        "distinct home directories), a backend and an abstract program (auth-heavy profile: USER with known / unknown / "
        "password-less / protected names, PASS right / wrong / empty / out of sequence, interleaved with all other "
        "verbs), concretised against the auth automaton of the reference model and run on simnet against a server "
        "whose backend is instrumented. After every command: reply codes equal the model's (gated verbs refused while "
        "not logged, PWD reports the home of the user actually authorised), and while the automaton is not 'logged' "
        "the backend call counter did not move and no listener / data connection appeared in the network ledger. "
        "Non-trivial = history with a re-USER after a completed login, a gated command between USER and PASS, or a "
        "PASS out of sequence; distinct by hash of (table, concrete history).")
ASSUMPTIONS = [
    "auth automaton: vlib/ftpmodel.py (USER drops the login first; PASS authorises only a pending user with the equal password)",
    "TYPE/PBSZ/PROT/ABOR/REST/SYST/unknown verbs need not be refused before login (the property does not demand it); "
    "they must still not touch the backend or open a data channel",
]
REPLAY_ATTEMPTS = 2

P = [("/", True, True)]
TABLES = [
    [dict(login=None, password=None, home="/", perms=P), dict(login="bob", password="pw", home="/hb", perms=P),
     dict(login="nop", password=None, home="/hc", perms=P)],
    [dict(login="bob", password="pw", home="/hb", perms=P), dict(login="carol", password="other", home="/hc", perms=P)],
    [dict(login="alice", password="secret", home="/", perms=P)],
    [dict(login="bob", password="pw", home="/hb", perms=P), dict(login=None, password=None, home="/", perms=P)],
    [dict(login="nop", password=None, home="/hc", perms=P), dict(login="bob", password="", home="/hb", perms=P)],
    # the anonymous entry (login None: answers to 'anonymous' and to every unknown name) has a password of its own
    [dict(login=None, password="gate", home="/", perms=P), dict(login="bob", password="pw", home="/hb", perms=P)],
    # a table without any user: nobody is a "known user"
    [],
]
NAMES = ["anonymous", "bob", "nop", "zed", "carol", "alice", "", "BOB", " bob"]
PWS = ["pw", "other", "secret", "bad", "", "PW", " pw", "pw x", "gate"]
TREE = {"/": DIR, "/hb": DIR, "/hc": DIR, "/hb/f": b"bob's file", "/hc/f": b"nop's", "/f": b"root file"}
GATED = {"PWD", "CWD", "CDUP", "MKD", "RMD", "DELE", "RNFR", "RNTO", "LIST", "MLSD", "MLST", "STOR", "APPE", "RETR",
         "PASV", "EPSV"}

STEP = st.tuples(*[st.integers(0, 255)] * 5)
CASE = st.tuples(st.integers(0, len(TABLES) - 1), st.lists(STEP, min_size=4, max_size=40),
                 st.sampled_from(["mem", "mem", "fs"]), st.lists(st.integers(0, 255), max_size=20))


def interesting(history):
    seen_logged = False
    pending = False
    hit = False
    logged = False
    for h in history:
        V = h["verb"].upper()
        if V == "USER" and logged:
            hit = True
        if V == "PASS" and not pending:
            hit = True
        if V in GATED and pending and not logged:
            hit = True
        # coarse tracking, only for classification
        if V == "USER":
            pending, logged = True, False
        if h.get("_logged_after"):
            logged = True
            pending = False
    return hit


def check(ctx, case):
    ti, program, backend, tape = case
    users = TABLES[ti]
    history = walk.concretise(list(program) + ["pwd"], users=users, tree=TREE, profile="auth", user_names=NAMES,
                              passwords=PWS)
    recs = []
    stats = dict(unauth_steps=0, unauth_gated=0)

    def after_step(info):
        rec, m, ctl, loop, bad = info["rec"], info["model"], info["ctl"], info["loop"], info["bad"]
        info["cs"]["_logged_after"] = m.logged()
        if info["was_logged"]:
            return
        stats["unauth_steps"] += 1
        V = rec["cmd"].split(" ")[0].upper()
        if V in GATED:
            stats["unauth_gated"] += 1
            if not (rec["got"] and rec["got"][0][:1] == "5"):
                bad("C03/gated_command_served_before_login", rec)
        if ctl.n != info["calls_before"]:
            bad("C03/backend_touched_before_login", rec, calls=ctl.log[info["calls_before"]:][:5])
        if (len(loop.net.all_transports), len(loop.net.all_listeners)) != info["net_before"]:
            bad("C03/data_channel_opened_before_login", rec)

    async def go(loop):
        with harness.TempDirs() as td:
            tmp = td.new() if backend != "mem" else None
            out = await walk.execute(loop, history, backend=backend, tmp=tmp, users=users, tree=TREE, records=recs,
                                     hooks=dict(instrument=True, after_step=after_step))
            await walk.finish(*out[2:])

    try:
        simnet.run(go, tape)
    finally:
        nt = interesting(history)
        ctx.count([ti, history], nt,
                  sample=dict(table=[(u["login"], u["password"]) for u in users], backend=backend,
                              history=[(r["cmd"], r.get("got")) for r in recs]),
                  classes=["table_%d" % ti, "be_" + backend] + (["has_unauth_gated"] if stats["unauth_gated"] else [])
                  + ["code_" + g for r in recs for g in (r.get("got") or [])[:1] if g in ("230", "331", "530", "503")])
        ctx.classes["unauth_steps"] += stats["unauth_steps"]
        ctx.classes["unauth_gated_commands"] += stats["unauth_gated"]


def part_auth(ctx):
    n = 900 if ctx.tier == "quick" else 20000
    hyp_run(ctx, CASE, lambda c: check(ctx, c), n, name="auth")


def replay_auth(case):
    from vlib.runner import Ctx
    check(Ctx(PROPERTY, "auth", "quick", 0, 0, 1), tuple(case))


# ---------------------------------------------------------------- commands sent back to back (one segment)
# The handlers of commands that arrive together must not overlap in a way that lets a command checked for one user run
# as another: "a session is never authorised as a user whose password it has not supplied".  Three users with disjoint
# bases holding the same names; the backend really suspends (virtual delays / AsyncPathIO), so a USER line sent right
# behind a command is handled while that command is still inside its guards.
PUSERS = {"anonymous": (None, None, "pub"), "bob": ("bob", "pw", "bob"), "admin": ("admin", "secret", "admin")}
PARGS = ["f", "d", "d/g", "new", "/f", "/d", ".", "", "../f", "d/../f"]
PVERBS = ["RETR", "LIST", "MLSD", "MLST", "CWD", "MKD", "RMD", "DELE", "STOR", "APPE", "RNFR", "RNTO", "PWD", "CDUP"]
PLINE = st.one_of(st.tuples(st.sampled_from(PVERBS), st.sampled_from(PARGS)).map(lambda t: (t[0] + " " + t[1]).strip()),
                  st.sampled_from(["USER admin", "USER bob", "USER anonymous", "USER zed", "PASS wrong", "PASS pw", "PASS secret x",
                                   "USER admin", "USER bob"]))
PDELAY = st.lists(st.tuples(st.sampled_from(["exists", "is_file", "is_dir", "stat", "mkdir", "unlink", "rmdir", "rename", "_open", "list.next"]),
                            st.sampled_from([0.01, 0.5])), max_size=3, unique_by=lambda t: t[0])
PCASE = st.tuples(st.sampled_from(["anonymous", "bob"]), st.lists(PLINE, min_size=2, max_size=5), PDELAY,
                  st.sampled_from(["mem", "mem", "afs"]), st.booleans(), st.lists(st.integers(0, 255), max_size=12))


def authorised_set(first, lines):
    """Users the session completes a login for, by the sequential reading of the lines (the only reading the protocol has)."""
    S = {first}
    pending = None
    for ln in lines:
        verb, _, arg = ln.partition(" ")
        if verb == "USER":
            pending = None
            if arg in PUSERS and PUSERS[arg][1] is not None:
                pending = arg
            else:
                S.add("anonymous")  # unknown names fall back to the anonymous user (password-less)
        elif verb == "PASS":
            if pending is not None and PUSERS[pending][1] == arg:
                S.add(pending)
                pending = None
    return S


async def _pipelined(loop, case, tmp, info):
    import asyncio
    import pathlib
    from vlib.harness import HOST, PORT, aioftp
    first, lines, delays, backend, with_data, _tape = case
    ctl = harness.Ctl()
    ctl.delays = dict(delays)
    root = pathlib.Path("/jail") if backend == "mem" else pathlib.Path(tmp) / "jail"
    users = [aioftp.User(login, pw, base_path=root / d) for login, pw, d in PUSERS.values()]
    server = aioftp.Server(users, path_io_factory=harness.instrument(harness.BACKENDS[backend], ctl), wait_future_timeout=3)
    await server.start(HOST, PORT)
    tree = {"/jail": DIR}
    for who, (_l, _p, d) in PUSERS.items():
        b = "/jail/" + d
        tree.update({b: DIR, b + "/f": ("<%s>:f" % who).encode(), b + "/d": DIR, b + "/d/g": ("<%s>:g" % who).encode()})
    if backend == "mem":
        harness.mem_populate(server, dict(tree, **{"/": DIR}))
        snap = lambda: harness.mem_tree(server)  # noqa: E731
    else:
        harness.fs_populate(tmp, tree)
        snap = lambda: harness.fs_tree(tmp)  # noqa: E731
    before = snap()
    raw = harness.Raw(HOST, PORT, patience=200)
    await raw.connect()
    await raw.cmd("USER " + first)
    if PUSERS[first][1] is not None:
        await raw.cmd("PASS " + PUSERS[first][1])
    data = b""
    dsock = None
    if with_data:
        await raw.cmd("EPSV")
        dsock = await raw.open_data()
        await asyncio.sleep(0.1)
    mark = len(ctl.log)
    raw.send(("\r\n".join(lines) + "\r\n").encode())
    replies = []
    if dsock is not None:
        async def pump():
            nonlocal data
            if any(ln.split(" ")[0] in ("STOR", "APPE") for ln in lines):
                dsock[1].write(b"<uploaded>")
                dsock[1].close()
            d_, _eof = await harness.read_all(dsock[0], 20)
            data += d_
        pump_task = asyncio.ensure_future(pump())
    while True:
        try:
            code, _ls = await asyncio.wait_for(raw.reply(), 30)
        except asyncio.TimeoutError:
            break
        replies.append(code)
        if code == "EOF":
            break
    if dsock is not None:
        await asyncio.wait([pump_task], timeout=30)
        dsock[1].close()
    raw.close()
    await asyncio.sleep(1)
    info.update(replies=replies, accesses=[e for e in ctl.log[mark:] if e[1] is not None], data=data, before=before, after=snap(),
                root=str(root))
    await asyncio.wait_for(server.close(), 1000)


def check_pipelined(ctx, case):
    first, lines, delays, backend, with_data, tape = case
    info = {}
    S = authorised_set(first, lines)
    try:
        with harness.TempDirs() as td:
            tmp = td.new() if backend != "mem" else None
            simnet.run(lambda loop: _pipelined(loop, case, tmp, info), tape)
        detail = dict(logged_in_as=first, sent_in_one_segment=lines, backend=backend, delays=delays, replies=info["replies"],
                      users_the_session_supplied_credentials_for=sorted(S))
        foreign = [w for w in PUSERS if w not in S]
        for w in foreign:
            base = info["root"] + "/" + PUSERS[w][2]
            hit = [e for e in info["accesses"] if e[1] == base or e[1].startswith(base + "/")]
            verb = next((ln.split(" ")[0] for ln in lines if ln.split(" ")[0] not in ("USER", "PASS")), "?")
            if hit:
                raise Violation(f"C03/pipelined/backend_asked_inside_base_of_user_never_authorised/{hit[0][0]}",
                                dict(detail, user=w, accesses=hit[:5]))
            if ("<%s>:" % w).encode() in info["data"]:
                raise Violation(f"C03/pipelined/content_of_user_never_authorised_served/{verb}", dict(detail, user=w, data=info["data"][:80]))
            vb = "/jail/" + PUSERS[w][2]
            sub = lambda t: {k: v for k, v in t.items() if k == vb or k.startswith(vb + "/")}  # noqa: E731
            if sub(info["before"]) != sub(info["after"]):
                raise Violation(f"C03/pipelined/tree_of_user_never_authorised_changed/{verb}", dict(detail, user=w))
    finally:
        cmd_then_user = any(a.split(" ")[0] not in ("USER", "PASS") and b.startswith("USER ") for a, b in zip(lines, lines[1:]))
        ctx.count([first, lines, delays, backend, with_data], cmd_then_user and bool(delays or backend == "afs"),
                  sample=dict(logged_in_as=first, sent_in_one_segment=lines, delays=delays, backend=backend, replies=info.get("replies"),
                              authorised=sorted(S), backend_accesses=len(info.get("accesses", []))),
                  classes=["pipelined_be_" + backend, "pipelined_authorised_%d" % len(S)] + (["command_then_USER"] if cmd_then_user else [])
                  + (["data_connection_open"] if with_data else []))


def part_pipelined(ctx):
    n = 300 if ctx.tier == "quick" else 6000
    hyp_run(ctx, PCASE, lambda c: check_pipelined(ctx, c), n, name="pipelined")


def replay_pipelined(case):
    from vlib.runner import Ctx
    first, lines, delays, backend, with_data, tape = case
    check_pipelined(Ctx(PROPERTY, "pipelined", "quick", 0, 0, 1), (first, list(lines), [tuple(d) for d in delays], backend, with_data, tape))


def plan(tier):
    return [("auth", 12), ("pipelined", 4)]

"""C03 - nothing is served before a completed login; re-USER drops the old login."""

from hypothesis import strategies as st

from vlib import harness, simnet, walk
from vlib.ftpmodel import DIR
from vlib.runner import Violation, hyp_run

PROPERTY = "C03"
LEVEL = "exploration"
RULE = ("Hypothesis draws a user table (5 shapes: anonymous present/absent, 1-3 named users with/without password, "
        "distinct home directories), a backend and an abstract program (auth-heavy profile: USER with known / unknown / "
        "password-less / protected names, PASS right / wrong / empty / out of sequence, interleaved with all other "
        "verbs), concretised against the auth automaton of the reference model and run on simnet against a server "
        "whose backend is instrumented. After every command: reply codes equal the model's (gated verbs refused while "
        "not logged, PWD reports the home of the user actually authorised), and while the automaton is not 'logged' "
        "the backend call counter did not move and no listener / data connection appeared in the network ledger. "
        "Non-trivial = history with a re-USER after a completed login, a gated command between USER and PASS, or a "
        "PASS out of sequence; distinct by hash of (table, concrete history).")
ASSUMPTIONS = [
    "auth automaton: vlib/ftpmodel.py (USER drops the login first; PASS authorises only a pending user with the equal password)",
    "TYPE/PBSZ/PROT/ABOR/REST/SYST/unknown verbs need not be refused before login (the property does not demand it); "
    "they must still not touch the backend or open a data channel",
]
REPLAY_ATTEMPTS = 2

P = [("/", True, True)]
TABLES = [
    [dict(login=None, password=None, home="/", perms=P), dict(login="bob", password="pw", home="/hb", perms=P),
     dict(login="nop", password=None, home="/hc", perms=P)],
    [dict(login="bob", password="pw", home="/hb", perms=P), dict(login="carol", password="other", home="/hc", perms=P)],
    [dict(login="alice", password="secret", home="/", perms=P)],
    [dict(login="bob", password="pw", home="/hb", perms=P), dict(login=None, password=None, home="/", perms=P)],
    [dict(login="nop", password=None, home="/hc", perms=P), dict(login="bob", password="", home="/hb", perms=P)],
]
NAMES = ["anonymous", "bob", "nop", "zed", "carol", "alice", "", "BOB", " bob"]
PWS = ["pw", "other", "secret", "bad", "", "PW", " pw", "pw x"]
TREE = {"/": DIR, "/hb": DIR, "/hc": DIR, "/hb/f": b"bob's file", "/hc/f": b"nop's", "/f": b"root file"}
GATED = {"PWD", "CWD", "CDUP", "MKD", "RMD", "DELE", "RNFR", "RNTO", "LIST", "MLSD", "MLST", "STOR", "APPE", "RETR",
         "PASV", "EPSV"}

STEP = st.tuples(*[st.integers(0, 255)] * 5)
CASE = st.tuples(st.integers(0, len(TABLES) - 1), st.lists(STEP, min_size=4, max_size=40),
                 st.sampled_from(["mem", "mem", "fs"]), st.lists(st.integers(0, 255), max_size=20))


def interesting(history):
    seen_logged = False
    pending = False
    hit = False
    logged = False
    for h in history:
        V = h["verb"].upper()
        if V == "USER" and logged:
            hit = True
        if V == "PASS" and not pending:
            hit = True
        if V in GATED and pending and not logged:
            hit = True
        # coarse tracking, only for classification
        if V == "USER":
            pending, logged = True, False
        if h.get("_logged_after"):
            logged = True
            pending = False
    return hit


def check(ctx, case):
    ti, program, backend, tape = case
    users = TABLES[ti]
    history = walk.concretise(list(program) + ["pwd"], users=users, tree=TREE, profile="auth", user_names=NAMES,
                              passwords=PWS)
    recs = []
    stats = dict(unauth_steps=0, unauth_gated=0)

    def after_step(info):
        rec, m, ctl, loop, bad = info["rec"], info["model"], info["ctl"], info["loop"], info["bad"]
        info["cs"]["_logged_after"] = m.logged()
        if info["was_logged"]:
            return
        stats["unauth_steps"] += 1
        V = rec["cmd"].split(" ")[0].upper()
        if V in GATED:
            stats["unauth_gated"] += 1
            if not (rec["got"] and rec["got"][0][:1] == "5"):
                bad("C03/gated_command_served_before_login", rec)
        if ctl.n != info["calls_before"]:
            bad("C03/backend_touched_before_login", rec, calls=ctl.log[info["calls_before"]:][:5])
        if (len(loop.net.all_transports), len(loop.net.all_listeners)) != info["net_before"]:
            bad("C03/data_channel_opened_before_login", rec)

    async def go(loop):
        with harness.TempDirs() as td:
            tmp = td.new() if backend != "mem" else None
            out = await walk.execute(loop, history, backend=backend, tmp=tmp, users=users, tree=TREE, records=recs,
                                     hooks=dict(instrument=True, after_step=after_step))
            await walk.finish(*out[2:])

    try:
        simnet.run(go, tape)
    finally:
        nt = interesting(history)
        ctx.count([ti, history], nt,
                  sample=dict(table=[(u["login"], u["password"]) for u in users], backend=backend,
                              history=[(r["cmd"], r.get("got")) for r in recs]),
                  classes=["table_%d" % ti, "be_" + backend] + (["has_unauth_gated"] if stats["unauth_gated"] else [])
                  + ["code_" + g for r in recs for g in (r.get("got") or [])[:1] if g in ("230", "331", "530", "503")])
        ctx.classes["unauth_steps"] += stats["unauth_steps"]
        ctx.classes["unauth_gated_commands"] += stats["unauth_gated"]


def part_auth(ctx):
    n = 900 if ctx.tier == "quick" else 20000
    hyp_run(ctx, CASE, lambda c: check(ctx, c), n, name="auth")


def replay_auth(case):
    from vlib.runner import Ctx
    check(Ctx(PROPERTY, "auth", "quick", 0, 0, 1), tuple(case))


def plan(tier):
    return [("auth", 16)]

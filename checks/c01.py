"""C01 - transferred bytes are exact (STOR / APPE / RETR, whole or from a restart offset)."""

import asyncio

from hypothesis import strategies as st

from vlib import harness, simnet
from vlib.harness import HOST, PORT, aioftp
from vlib.runner import Violation, hyp_run

PROPERTY = "C01"
LEVEL = "exploration"
RULE = ("Hypothesis draws backend (memory/PathIO/AsyncPathIO), server block size {1,2,3,5,8,64,8192}, EPSV or PASV, a "
        "throttle configuration (none / server / per-connection / client, either direction), 1-6 operations on two "
        "files from {STOR, APPE, STOR@offset, APPE@offset, RETR, RETR@offset} with sizes from the block-boundary set "
        "{0,1,b-1,b,b+1,2b-1,2b,2b+1,kb+r} or free, offsets from {0, inside, =size, >size}, 7 content patterns "
        "(all 256 values, CR/LF/NUL/IAC runs, position-dependent), client write chunkings, client read modes "
        "(read(n), iter_by_block(n), read(-1)) and a network schedule tape; the real aioftp.Client drives the real "
        "server on simnet. Oracle: byte model (dict path->bytes); after each upload's completion reply the backend "
        "content read directly, stat size and MLSD size seen by a second session, and a whole download by that second "
        "session must equal the model. Non-trivial = length > block size with len % block != 0, or offset > 0, or a "
        "payload with special bytes; distinct by hash of the whole case. "
        "readers: 2-4 sessions download / stat / list one stored file at the same time (workers paced by a per-connection limit); each download must be exact; non-trivial = two transfer workers were inside the file together. "
        "late: (backend, EPSV/PASV, extra one-way delay of data connections 0-1.5 s, an earlier operation that is refused / times out / completes, then STOR / APPE / RETR / upload()): an operation that returns normally has exact bytes; non-trivial = delay > 0 and an earlier operation.")
ASSUMPTIONS = [
    "restart writes to a missing file are outside this property (answered 451 on every backend; C18)",
    "a restart offset beyond the end zero-fills only if at least one byte is then written (POSIX and BytesIO agree)",
    "simnet network model; throttling runs in virtual time",
]
REPLAY_ATTEMPTS = 2

BLOCKS = [1, 2, 3, 5, 8, 64, 8192]
THROTTLES = [None, ("server", "read", 20000), ("server", "write", 3000), ("conn", "write", 5000), ("conn", "read", 7000),
             ("client", "write", 4000), ("client", "read", 2500), None, None,
             # 0 means "no limit" to the throttle code: degenerate limits must not change the bytes either
             ("server", "write", 0), ("conn", "read", 0), ("user", "write", 0), ("user", "read", 900), ("userconn", "write", 1200),
             ("client", "read", 0)]
OP = st.tuples(st.sampled_from(["stor", "appe", "stor_off", "appe_off", "retr", "retr_off", "stor", "retr", "upload_file", "download_file"]),
               st.integers(0, 1),  # file
               st.integers(0, 255),  # size selector
               st.integers(0, 6),  # pattern
               st.integers(0, 255),  # offset selector
               st.integers(0, 255),  # chunk selector
               st.integers(0, 255))  # seed
CASE = st.tuples(st.sampled_from(["mem", "mem", "fs", "afs"]), st.sampled_from(BLOCKS), st.sampled_from(["epsv", "pasv"]),
                 st.sampled_from(THROTTLES), st.lists(OP, min_size=1, max_size=6), st.lists(st.integers(0, 255), max_size=80),
                 st.booleans())


def size_for(sel, b, big):
    table = [0, 1, max(b - 1, 0), b, b + 1, 2 * b - 1, 2 * b, 2 * b + 1, 3 * b + 2, 5 * b + (sel % max(b, 1))]
    if sel < 160:
        n = table[sel % len(table)]
    elif sel < 230:
        n = (sel * 37) % 700
    else:
        n = (sel * 2579) % (65536 if not big else 1 << 20)
    if b <= 8:
        n = min(n, 1500)
    return min(n, 1 << 20)


def payload_for(n, pattern, seed):
    if pattern == 0:
        unit = bytes(range(256))
    elif pattern == 1:
        unit = b"\r\n\r\r\n\n\r"
    elif pattern == 2:
        unit = b"\x00\xff\xff\x00\xf4\xff\xf2"  # NUL and telnet IAC runs
    elif pattern == 3:
        return bytes((i * 7 + seed) % 251 for i in range(n))
    elif pattern == 4:
        unit = bytes([seed])
    elif pattern == 5:
        return bytes(((i * i + seed * 31) >> 3) & 0xFF for i in range(n))
    else:
        unit = b"line\r\n226 done\r\n\xff\xfe"
    return (unit * (n // len(unit) + 1))[:n]


def chunks_for(data, sel):
    k = sel % 6
    if k == 0 or not data:
        return [data] if data or sel % 2 else []
    if k == 1:
        step = 1 if len(data) < 300 else 97
    elif k == 2:
        step = max(1, len(data) // 3)
    elif k == 3:
        step = 7
        if len(data) > 5000:
            step = 1013
    elif k == 4:
        return [data[:1], b"", data[1:]]
    else:
        step = 8192
    return [data[i:i + step] for i in range(0, len(data), step)]


def special(p):
    return any(x in p for x in (b"\r", b"\n", b"\x00", b"\xff"))


def model_write(old, off, p):
    if off == 0:
        raise AssertionError
    if not p:
        return old
    return old[:off].ljust(off, b"\0") + p + old[off + len(p):]


async def _run(loop, case, ctx_info, tmp):
    backend, block, passive, throttle, ops, tape, big = case
    skw = {}
    ckw = {}
    if throttle:
        where, direction, limit = throttle
        if where == "server":
            skw[f"{direction}_speed_limit"] = limit
        elif where == "conn":
            skw[f"{direction}_speed_limit_per_connection"] = limit
        elif where == "client":
            ckw[f"{direction}_speed_limit"] = limit
    ukw = {}
    if throttle and throttle[0] in ("user", "userconn"):
        ukw[f"{throttle[1]}_speed_limit" + ("_per_connection" if throttle[0] == "userconn" else "")] = throttle[2]
    users = [aioftp.User(base_path=tmp, **ukw)] if backend != "mem" else [aioftp.User(**ukw)]
    # behaviour-neutral server options (pool, limits far above the traffic, long timeouts) vary with the case
    neutral = [{}, {}, {"data_ports": [5001, 5002, 5003, 5004]}, {"maximum_connections": 3}, {"socket_timeout": 10 ** 6, "idle_timeout": 10 ** 6},
               {"path_timeout": 900}, {"ipv4_pasv_forced_response_address": "127.0.0.1"}][(len(tape) + block) % 7]
    for k_, v_ in neutral.items():
        skw.setdefault(k_, v_)
    server = aioftp.Server(users, path_io_factory=harness.BACKENDS[backend], block_size=block, **skw)
    await server.start(HOST, PORT)
    client = aioftp.Client(passive_commands=(passive,), path_io_factory=aioftp.MemoryPathIO, **ckw)
    observer = aioftp.Client(path_io_factory=aioftp.MemoryPathIO)
    await client.connect(HOST, PORT)
    await client.login()
    await observer.connect(HOST, PORT)
    await observer.login()
    model = {}
    names = ["f0.bin", "f1"]

    def backend_bytes(name):
        if backend == "mem":
            return harness.mem_tree(server).get("/" + name)
        return harness.fs_tree(tmp).get("/" + name)

    async def download(cl, name, off, mode, n):
        buf = bytearray()
        async with cl.download_stream(name, offset=off) as stream:
            if mode == 0:
                async for blk in stream.iter_by_block(n):
                    buf += blk
            elif mode == 1:
                while True:
                    blk = await stream.read(n)
                    if not blk:
                        break
                    buf += blk
            else:
                buf += await stream.read()
        return bytes(buf)

    try:
        for i, (kind, fi, ssel, pat, osel, csel, seed) in enumerate(ops):
            name = names[fi]
            cur = model.get(name)
            rec = dict(i=i, kind=kind, file=name, block=block)
            ctx_info["ops"].append(rec)
            if kind in ("upload_file", "download_file"):
                # the high-level file API (Client.upload / Client.download with a client-side block size)
                import pathlib
                bs = [1, 3, 64, 1000, 8192][csel % 5]
                local = pathlib.PurePosixPath("/local/f%d" % i)
                await client.path_io.mkdir(local.parent, parents=True, exist_ok=True)
                if kind == "upload_file":
                    n = size_for(ssel, block, big)
                    if bs < 8:
                        n = min(n, 600)
                    p = payload_for(n, pat, seed)
                    async with client.path_io.open(local, "wb") as f:
                        await f.write(p)
                    rec.update(size=n, client_block=bs)
                    await client.upload(local, name, write_into=True, block_size=bs)
                    model[name] = p
                    if n > block and n % block or special(p):
                        ctx_info["nontrivial"] = True
                    got = backend_bytes(name)
                    if got != p:
                        raise Violation(f"C01/upload_file/backend_content/{diff_kind(got, p)}",
                                        dict(rec=rec, got_len=None if got is None else len(got), exp_len=len(p), first_diff=first_diff(got, p)))
                else:
                    if cur is None or (bs < 8 and len(cur) > 2000):
                        rec["skipped"] = "nothing to download"
                        continue
                    rec.update(client_block=bs, size=len(cur))
                    await client.download(name, local, write_into=True, block_size=bs)
                    async with client.path_io.open(local, "rb") as f:
                        got = await f.read()
                    if special(cur) or (len(cur) > block and len(cur) % block):
                        ctx_info["nontrivial"] = True
                    if got != cur:
                        raise Violation(f"C01/download_file/local_content/{diff_kind(got, cur)}",
                                        dict(rec=rec, got_len=len(got), exp_len=len(cur), first_diff=first_diff(got, cur)))
            elif kind in ("stor", "appe", "stor_off", "appe_off"):
                n = size_for(ssel, block, big)
                p = payload_for(n, pat, seed)
                off = 0
                if kind.endswith("_off"):
                    if cur is None:
                        kind = rec["kind"] = kind[:-4]  # restart write needs an existing file (else 451: C18)
                    else:
                        off = [max(1, len(cur) // 2), len(cur), len(cur) + 1 + osel % 9, 1][osel % 4]
                        if off == 0:
                            off = 1
                rec.update(size=n, offset=off, pattern=pat, chunks=csel % 6,
                           offset_class=("none" if not off else "inside" if off < len(cur) else "at_end" if off == len(cur) else "beyond_end"))
                chunks = chunks_for(p, csel)
                opener = client.upload_stream if kind.startswith("stor") else client.append_stream
                async with opener(name, offset=off) as stream:
                    for ch in chunks:
                        await stream.write(ch)
                if off:
                    model[name] = model_write(cur, off, p)
                elif kind.startswith("stor"):
                    model[name] = p
                else:
                    model[name] = (cur or b"") + p
                exp = model[name]
                if n > block and n % block or off or special(p):
                    ctx_info["nontrivial"] = True
                # completion reply received: everything must reflect the new content right now
                got = backend_bytes(name)
                if got != exp:
                    raise Violation(f"C01/{kind}/backend_content/{diff_kind(got, exp)}",
                                    dict(rec=rec, got_len=None if got is None else len(got), exp_len=len(exp),
                                         first_diff=first_diff(got, exp)))
                info = await observer.stat(name)
                if int(info["size"]) != len(exp):
                    raise Violation(f"C01/{kind}/stat_size_on_other_session", dict(rec=rec, got=info["size"], exp=len(exp)))
                listed = {str(pth): inf for pth, inf in await observer.list()}
                if int(listed[name]["size"]) != len(exp):
                    raise Violation(f"C01/{kind}/mlsd_size_on_other_session", dict(rec=rec, got=listed[name]["size"], exp=len(exp)))
                whole = await download(observer, name, 0, 2, 0)
                if whole != exp:
                    raise Violation(f"C01/{kind}/download_on_other_session/{diff_kind(whole, exp)}",
                                    dict(rec=rec, got_len=len(whole), exp_len=len(exp), first_diff=first_diff(whole, exp)))
            else:
                if cur is None:
                    rec["skipped"] = "file does not exist yet"
                    continue
                off = 0
                if kind == "retr_off":
                    off = [max(1, len(cur) // 2), len(cur), len(cur) + 1 + osel % 9, 1][osel % 4]
                mode = csel % 3
                n = [1, 2, 3, 7, block, block + 1, 8192, 65536][(csel // 3) % 8]
                if len(cur) > 3000:
                    n = max(n, 64)
                rec.update(offset=off, read_mode=["iter_by_block", "read(n)", "read(-1)"][mode], n=n,
                           offset_class=("none" if not off else "inside" if off < len(cur) else "at_end" if off == len(cur) else "beyond_end"))
                if kind == "retr_off" and seed % 3 == 0:
                    # a restart offset handed to a transfer that is refused (missing file) must not reach the next
                    # transfer: same passive connection, no command in between, the whole file is due
                    rec.update(variant="after_refused_restart")
                    reader, writer = await client.get_passive_connection("I")
                    await client.command("REST %d" % max(1, off), "350")
                    await client.command("RETR no-such-file-%d" % i, ("4xx", "5xx"))
                    await client.command("RETR " + name, "1xx")
                    buf = bytearray()
                    while True:
                        blk = await reader.read(8192)
                        if not blk:
                            break
                        buf += blk
                    writer.close()
                    await client.command(None, "2xx")
                    ctx_info["nontrivial"] = True
                    if bytes(buf) != cur:
                        raise Violation(f"C01/retr_after_refused_restart/downloaded_bytes/{diff_kind(bytes(buf), cur)}",
                                        dict(rec=rec, got_len=len(buf), exp_len=len(cur), first_diff=first_diff(bytes(buf), cur)))
                    continue
                got = await download(client, name, off, mode, n)
                exp = cur[off:]
                if off or special(exp) or (len(exp) > block and len(exp) % block):
                    ctx_info["nontrivial"] = True
                if got != exp:
                    raise Violation(f"C01/{kind}/downloaded_bytes/{diff_kind(got, exp)}",
                                    dict(rec=rec, got_len=len(got), exp_len=len(exp), first_diff=first_diff(got, exp)))
    except (aioftp.AIOFTPException, OSError, EOFError, asyncio.TimeoutError, asyncio.IncompleteReadError) as e:
        # every operation generated here is valid (existing files, writable targets): the client must complete it
        last = ctx_info["ops"][-1] if ctx_info["ops"] else {}
        raise Violation(f"C01/{last.get('kind', 'setup')}/valid_transfer_raised_{type(e).__name__}", dict(rec=last, error=repr(e)[:300]))
    finally:
        client.close()
        observer.close()
        await asyncio.wait_for(server.close(), 1000)


def first_diff(a, b):
    if a is None or b is None:
        return None
    for i, (x, y) in enumerate(zip(a, b)):
        if x != y:
            return dict(at=i, got=a[max(0, i - 4):i + 8], exp=b[max(0, i - 4):i + 8])
    return dict(at=min(len(a), len(b)), got=a[-8:], exp=b[-8:])


def diff_kind(got, exp):
    if got is None:
        return "missing"
    if len(got) < len(exp):
        return "shorter" if exp.startswith(got) else "shorter_and_different"
    if len(got) > len(exp):
        return "longer" if got.startswith(exp) else "longer_and_different"
    return "same_length_different_bytes"


def check(ctx, case):
    backend, block, passive, throttle, ops, tape, big = case
    if ctx.tier == "quick":
        case = (backend, block, passive, throttle, ops, tape, False)
    info = dict(ops=[], nontrivial=False)
    try:
        with harness.TempDirs() as td:
            tmp = td.new() if backend != "mem" else None
            simnet.run(lambda loop: _run(loop, case, info, tmp), tape)
    finally:
        ctx.count(case, info["nontrivial"], sample=dict(backend=backend, block=block, passive=passive, throttle=throttle,
                                                        tape=tape[:10], ops=info["ops"]),
                  classes=["be_" + backend, "block_%d" % block, passive, "throttle_" + (throttle[0] + "_" + throttle[1] if throttle else "none")]
                  + ["op_" + o["kind"] for o in info["ops"]]
                  + ["offset_" + o["offset_class"] for o in info["ops"] if o.get("offset_class")]
                  + ["multi_block_unaligned" for o in info["ops"] if o.get("size", 0) > block and o.get("size", 0) % block])


def part_bytes(ctx):
    n = 300 if ctx.tier == "quick" else 2500
    hyp_run(ctx, CASE, lambda c: check(ctx, c), n, name="bytes")


def replay_bytes(case):
    from vlib.runner import Ctx
    check(Ctx(PROPERTY, "bytes", "thorough", 0, 0, 1), tuple(case))


# ---------------------------------------------------------------- several sessions read one stored file at the same time
READERS = st.tuples(st.sampled_from(["mem", "mem", "fs", "afs"]), st.sampled_from([1, 3, 8, 64, 8192]), st.integers(0, 255), st.integers(0, 6),
                    st.lists(st.tuples(st.sampled_from(["retr", "retr", "retr_off", "stat", "list", "size_via_mlst"]), st.integers(0, 255),
                                       st.sampled_from([0, 0.001, 0.01, 0.3])), min_size=2, max_size=4),
                    st.lists(st.integers(0, 255), max_size=60), st.sampled_from([None, 2000, 2000, 20000, 50000]))


async def _readers(loop, case, info, tmp):
    backend, block, sel, pattern, sessions, tape, pace = case
    size = max(2 * block + 1, size_for(sel, block, False))
    data = payload_for(size, pattern, sel)
    users = [aioftp.User(base_path=tmp)] if backend != "mem" else [aioftp.User()]
    # a per-connection write limit paces the server's transfer workers, so that they are really inside the file together
    server = aioftp.Server(users, path_io_factory=harness.BACKENDS[backend], block_size=block, write_speed_limit_per_connection=pace)
    await server.start(HOST, PORT)
    up = aioftp.Client(path_io_factory=aioftp.MemoryPathIO)
    await up.connect(HOST, PORT)
    await up.login()
    async with up.upload_stream("f.bin") as s_:
        await s_.write(data)
    await up.quit()
    info["size"] = size
    active = [0]
    overlap = [0]

    async def one(i, kind, osel, pause):
        c = aioftp.Client(path_io_factory=aioftp.MemoryPathIO)
        await c.connect(HOST, PORT)
        await c.login()
        try:
            await asyncio.sleep(pause * i)
            if kind in ("retr", "retr_off"):
                off = 0 if kind == "retr" else [1, block, size // 2, size - 1, size][osel % 5]
                got = b""
                active[0] += 1
                try:
                    async with c.download_stream("f.bin", offset=off) as s_:
                        async for blk in s_.iter_by_block(max(1, block * (1 + osel % 3))):
                            got += blk
                            if sum(1 for conn in list(server.connections.values()) if any(not w.done() for w in conn.extra_workers)) > 1:
                                overlap[0] += 1
                            if pause:
                                await asyncio.sleep(pause)
                finally:
                    active[0] -= 1
                if got != data[off:]:
                    raise Violation(f"C01/readers/{kind}/wrong_bytes_while_another_session_uses_the_file",
                                    dict(backend=backend, block=block, size=size, session=i, offset=off, got_len=len(got), expected_len=size - off,
                                         first_difference=next((k for k, (a, b) in enumerate(zip(got, data[off:])) if a != b), min(len(got), size - off)),
                                         sessions=[x[0] for x in sessions]))
            else:
                for _ in range(1 + osel % 4):
                    if kind == "list":
                        sizes = [int(i_["size"]) for p_, i_ in await c.list() if p_.name == "f.bin"]
                    else:
                        sizes = [int((await c.stat("f.bin"))["size"])]
                    if sizes != [size]:
                        raise Violation(f"C01/readers/{kind}/wrong_size", dict(backend=backend, size=size, got=sizes))
                    await asyncio.sleep(pause or 0.002)
            await c.quit()
        finally:
            c.close()

    try:
        await asyncio.gather(*[one(i, *s_) for i, s_ in enumerate(sessions)])
    finally:
        info["overlap"] = overlap[0]
        await asyncio.wait_for(server.close(), 1000)


def check_readers(ctx, case):
    backend, block, sel, pattern, sessions, tape, pace = case
    info = {}
    try:
        with harness.TempDirs() as td:
            tmp = td.new() if backend != "mem" else None
            simnet.run(lambda loop: _readers(loop, case, info, tmp), tape)
    finally:
        ctx.count(case, info.get("overlap", 0) > 0,
                  sample=dict(backend=backend, block=block, size=info.get("size"), sessions=[(k, p) for k, _o, p in sessions], pace=pace,
                              blocks_read_while_two_transfer_workers_were_running=info.get("overlap")),
                  classes=["readers_" + backend, "readers_overlap" if info.get("overlap") else "readers_sequential"]
                  + ["readers_with_" + k for k in sorted({k for k, _o, _p in sessions})])


def part_readers(ctx):
    n = 150 if ctx.tier == "quick" else 2500
    hyp_run(ctx, READERS, lambda c: check_readers(ctx, c), n, name="readers")


def replay_readers(case):
    from vlib.runner import Ctx
    backend, block, sel, pattern, sessions, tape, pace = case
    check_readers(Ctx(PROPERTY, "readers", "thorough", 0, 0, 1), (backend, block, sel, pattern, [tuple(x) for x in sessions], tape, pace))


# ---------------------------------------------------------------- a data path slower than the control path
LATE = st.tuples(st.sampled_from(["mem", "fs"]), st.sampled_from(["epsv", "pasv"]), st.sampled_from([0, 0.004, 0.05, 0.3, 1.5]),
                 st.sampled_from(["retr_missing", "stor_refused", "list_missing", "stor_ok", "none"]),
                 st.sampled_from(["stor", "appe", "retr", "stor", "upload_file"]), st.integers(0, 255), st.integers(0, 6))


async def _late(loop, case, info, tmp):
    backend, passive, delay, first, second, sel, pattern = case
    users = [aioftp.User(base_path=tmp)] if backend != "mem" else [aioftp.User()]
    server = aioftp.Server(users, path_io_factory=harness.BACKENDS[backend], block_size=64, wait_future_timeout=1)
    await server.start(HOST, PORT)
    loop.net.accept_delay = lambda port: delay if port != PORT else 0
    stored = payload_for(300 + sel, (pattern + 1) % 7, sel)
    (harness.mem_populate(server, {"/old.bin": stored}) if backend == "mem" else harness.fs_populate(tmp, {"/old.bin": stored}))
    c = aioftp.Client(path_io_factory=aioftp.MemoryPathIO, passive_commands=(passive,))
    await c.connect(HOST, PORT)
    await c.login()
    first_payload = payload_for(200 + sel, pattern, (sel + 1) % 256)
    data = payload_for(1000 + 7 * sel, (pattern + 3) % 7, (sel + 2) % 256)
    try:
        try:
            if first == "retr_missing":
                async with c.download_stream("missing.bin") as s_:
                    await s_.read()
            elif first == "list_missing":
                await c.list("no-such-dir")
            elif first == "stor_refused":
                async with c.upload_stream("no-such-dir/x.bin") as s_:
                    await s_.write(first_payload)
            elif first == "stor_ok":
                async with c.upload_stream("first.bin") as s_:
                    await s_.write(first_payload)
            info["first"] = "completed"
        except (aioftp.StatusCodeError, ConnectionError, OSError, asyncio.TimeoutError) as e:
            info["first"] = "raised " + type(e).__name__ + (" " + "/".join(str(x) for x in e.received_codes) if isinstance(e, aioftp.StatusCodeError) else "")
        # the operation under test: whatever happened before, if it returns normally its bytes are exact
        try:
            if second in ("stor", "appe"):
                async with (c.upload_stream if second == "stor" else c.append_stream)("second.bin") as s_:
                    await s_.write(data)
                got, want = None, data
            elif second == "upload_file":
                async with c.path_io.open(aioftp.pathio.pathlib.PurePosixPath("/local.bin"), "wb") as f:
                    await f.write(data)
                await c.upload("/local.bin", "second.bin", write_into=True)
                got, want = None, data
            else:
                async with c.download_stream("old.bin") as s_:
                    got = await s_.read()
                want = stored
            info["second"] = "completed"
        except (aioftp.StatusCodeError, ConnectionError, OSError, asyncio.TimeoutError) as e:
            info["second"] = "raised " + type(e).__name__
            return
        await asyncio.sleep(delay + 3)
        if got is None:
            tree = harness.mem_tree(server) if backend == "mem" else harness.fs_tree(tmp)
            got = tree.get("/second.bin")
        if got != want:
            if got == first_payload and first == "stor_ok" and second != "retr":
                # the data connection of the earlier (timed-out) transfer arrived late and was taken for this one
                sig = "C01/late/upload_stored_the_data_of_the_earlier_transfer_whose_connection_arrived_late"
            else:
                sig = f"C01/late/{second}/completed_with_wrong_bytes_after_{first}"
            raise Violation(sig,
                            dict(backend=backend, passive=passive, data_path_extra_delay=delay, first=first, first_outcome=info.get("first"),
                                 second=second, expected_len=len(want), got_len=None if got is None else len(got),
                                 got_starts=None if got is None else repr(got[:12]), expected_starts=repr(want[:12])))
    finally:
        c.close()
        await asyncio.sleep(delay + 2)
        await asyncio.wait_for(server.close(), 1000)


def check_late(ctx, case):
    info = {}
    try:
        with harness.TempDirs() as td:
            tmp = td.new() if case[0] != "mem" else None
            try:
                simnet.run(lambda loop: _late(loop, case, info, tmp))
            except simnet.Quiescent:
                # nothing can happen any more: an operation waits for ever (no client timeouts are set here). A transfer that
                # never completes delivers no wrong bytes: counted, not judged by this property
                info["second"] = "hung " + info.get("second", "")
    finally:
        ctx.count(case, case[2] > 0 and case[3] != "none",
                  sample=dict(backend=case[0], passive=case[1], data_path_extra_delay=case[2], first=case[3], first_outcome=info.get("first"),
                              second=case[4], second_outcome=info.get("second")),
                  classes=["late_delay_%s" % case[2], "late_first_" + case[3], "late_second_" + str(info.get("second", "?")).split(" ")[0]])


def part_late(ctx):
    n = 60 if ctx.tier == "quick" else 800
    hyp_run(ctx, LATE, lambda c: check_late(ctx, c), n, name="late")


def replay_late(case):
    from vlib.runner import Ctx
    check_late(Ctx(PROPERTY, "late", "thorough", 0, 0, 1), tuple(case))


def plan(tier):
    return [("bytes", 16), ("readers", 16), ("late", 8)]

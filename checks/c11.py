"""C11 - the passive data-port pool neither loses nor duplicates ports."""

import asyncio
import errno
import itertools

from hypothesis import strategies as st

from vlib import harness, simnet
from vlib.harness import HOST, PORT, Raw, aioftp, read_all
from vlib.runner import Violation, hyp_run

PROPERTY = "C11"
LEVEL = "fault_enumeration"
RULE = ("faults: enumeration of every assignment {no fault, EADDRINUSE, EACCES} to (port, attempt) for a 3-port pool and 2 "
        "attempts (3^6 = 729 patterns) x 3 fixed 10-event histories over 3 sessions (PASV/EPSV first and repeated, "
        "transfer, QUIT, disconnect). startup: iteration-indexed sweep of session end (peer disconnect / Server.close()) "
        "n = 0..15 loop iterations after PASV/EPSV was sent, with 1-3 sessions doing so at once on 1-3 port pools, with "
        "and without a bind fault on the first attempt. machine: Hypothesis histories (pool size 0-3, up to 4 sessions, "
        "events PASV / EPSV / LIST with data connection / PWD / QUIT / disconnect / passive-command-then-FIN, random "
        "fault patterns, schedule tapes). Oracle at quiescence after every event and at the end: multiset(ports in the "
        "pool) + {port bound by a live session's listener} = configured set, the network's listener table holds "
        "exactly those bound ports, a 227/229 names a configured port no other live session holds, 421 only when no "
        "free port could be bound, and after all sessions ended the pool equals the configured set with no listener "
        "left. Non-trivial = at least one bind fault consumed or a session end inside a start-up; distinct by the case.")
ASSUMPTIONS = [
    "a non-EADDRINUSE bind error may end the session (the property only requires that the port is not lost)",
    "simnet's create_server has the same two suspension points as CPython 3.12's (before bind, after listen)",
]
REPLAY_ATTEMPTS = 2

PORTS = [5001, 5002, 5003]
ERRS = {1: errno.EADDRINUSE, 2: errno.EACCES}


def pool_ports(server):
    return sorted(p for _pr, p in server.available_data_ports._queue)


def as_configured(ports, k):
    """The same pool handed over as a list, a tuple, a range-like iterable, a generator or a one-shot iterator:
    data_ports is documented as an iterable, its kind must not matter."""
    ports = list(ports)
    return [ports, tuple(ports), iter(ports), (p for p in ports), map(int, [str(p) for p in ports]), dict.fromkeys(ports).keys()][k % 6]


async def _history(loop, ports, faults, nsess, events, info):
    loop.net.bind_faults = {k: v for k, v in faults.items()}
    server = aioftp.Server(path_io_factory=aioftp.MemoryPathIO, data_ports=as_configured(ports, len(events) + nsess), wait_future_timeout=2)
    host = "::1" if info.get("ipv6") else HOST
    await server.start(host, PORT)
    sess = []
    for i in range(nsess):
        r = Raw(host, PORT, patience=20)
        await r.connect()
        await r.cmd("USER anonymous")
        sess.append(dict(raw=r, alive=True, port=None))
    trace = info.setdefault("trace", [])

    def invariant(tag):
        pool = pool_ports(server)
        bound = sorted(s["port"] for s in sess if s["alive"] and s["port"] is not None)
        listeners = sorted(p for (_h, p) in loop.net.listeners if p != PORT)
        problems = []
        if sorted(pool + bound) != sorted(ports):
            lost = sorted(set(ports) - set(pool) - set(bound))
            dup = sorted(p for p in set(pool + bound) if (pool + bound).count(p) > 1)
            problems.append("port_lost" if lost else ("port_duplicated" if dup else "pool_mismatch"))
        if listeners != bound:
            problems.append("listener_leaked" if set(listeners) - set(bound) else "listener_missing")
        if problems:
            raise Violation(f"C11/{info['tag']}/{'+'.join(problems)}/after={tag}",
                            dict(pool=pool, bound=bound, listeners=listeners, configured=list(ports), trace=trace[-8:],
                                 faults={f"{k[0]}#{k[1]}": v for k, v in faults.items()}))

    for idx, verb in events:
        s = sess[idx % nsess]
        if not s["alive"]:
            continue
        raw = s["raw"]
        attempts_before = dict(loop.net.bind_attempts)
        pool_before = pool_ports(server)
        if verb in ("PASV", "EPSV"):
            code, lines = await raw.cmd(verb)
            tried = {p: loop.net.bind_attempts[p] - attempts_before.get(p, 0) for p in ports}
            consumed = [(p, a) for p in ports for a in range(attempts_before.get(p, 0) + 1, loop.net.bind_attempts[p] + 1)
                        if (p, a) in faults]
            info["faults_consumed"] = info.get("faults_consumed", 0) + len(consumed)
            trace.append((idx % nsess, verb, code, raw.passive_port if code in ("227", "229") else None))
            if code in ("227", "229"):
                port = raw.passive_port
                others = [x["port"] for x in sess if x is not s and x["alive"]]
                if port not in ports:
                    raise Violation(f"C11/{info['tag']}/port_not_configured", dict(port=port, trace=trace[-6:]))
                if port in others:
                    raise Violation(f"C11/{info['tag']}/port_given_to_two_sessions", dict(port=port, trace=trace[-6:]))
                if s["port"] is not None and port != s["port"]:
                    raise Violation(f"C11/{info['tag']}/listener_changed_port", dict(port=port, was=s["port"]))
                s["port"] = port
            elif code == "421":
                ok = (not pool_before and s["port"] is None) or all(
                    tried[p] >= 1 and all(faults.get((p, a)) == errno.EADDRINUSE
                                          for a in range(attempts_before.get(p, 0) + 1, loop.net.bind_attempts[p] + 1))
                    for p in pool_before)
                if not ok:
                    raise Violation(f"C11/{info['tag']}/421_while_a_port_was_free",
                                    dict(pool_before=pool_before, tried=tried, trace=trace[-6:]))
                s["alive"] = False
                raw.close()
            elif code == "EOF":
                if not any(faults.get(c_) not in (None, errno.EADDRINUSE) for c_ in consumed):
                    raise Violation(f"C11/{info['tag']}/session_closed_by_passive_command", dict(trace=trace[-6:], consumed=consumed))
                s["alive"] = False
                raw.close()
            elif code == "503" and verb == "PASV" and info.get("ipv6"):
                # "this server started in ipv6 mode": refused, but the listener (and its port) may have been opened already and
                # then belongs to the session; which port it is can only be inferred from the pool
                if s["port"] is None:
                    known = [x["port"] for x in sess if x["alive"] and x["port"] is not None]
                    held = sorted(set(ports) - set(pool_ports(server)) - set(known))
                    if len(held) == 1:
                        s["port"] = held[0]
            else:
                raise Violation(f"C11/{info['tag']}/unexpected_reply_{code}", dict(trace=trace[-6:]))
        elif verb == "LIST":
            if s["port"] is None:
                continue
            try:
                rw = await raw.open_data()
            except OSError:
                raise Violation(f"C11/{info['tag']}/announced_port_refuses", dict(port=s["port"], trace=trace[-6:]))
            await asyncio.sleep(0.2)
            code, _ = await raw.cmd("LIST")
            if code == "150":
                await read_all(rw[0], 20)
                rw[1].close()
                code, _ = await raw.reply()
            else:
                rw[1].close()
            trace.append((idx % nsess, verb, code))
        elif verb == "PWD":
            code, _ = await raw.cmd("PWD")
            trace.append((idx % nsess, verb, code))
        elif verb == "PIPELINED":
            # two passive commands in one segment: still one listener, one port, two answers
            raw.send(b"PASV\r\nEPSV\r\n")
            codes = []
            for _ in range(2):
                code, lines = await raw.reply()
                codes.append(code)
                if code in ("227", "229"):
                    port = harness.parse_passive(code, lines[-1])
                    if s["port"] is not None and port != s["port"]:
                        raise Violation(f"C11/{info['tag']}/pipelined_passive_commands_open_two_listeners", dict(ports=[s["port"], port], trace=trace[-6:]))
                    s["port"] = port
                    raw.passive_port = port
                elif code in ("421", "EOF"):
                    s["alive"] = False
                    raw.close()
                    break
            trace.append((idx % nsess, verb, codes))
        elif verb == "REUSER":
            # logging in again does not end the session: its listener (and port) stay with it
            code, _ = await raw.cmd("USER anonymous")
            trace.append((idx % nsess, verb, code))
        elif verb == "QUIT":
            code, _ = await raw.cmd("QUIT")
            raw.close()
            s["alive"] = False
            trace.append((idx % nsess, verb, code))
        elif verb == "DROP":
            raw.close()
            s["alive"] = False
            trace.append((idx % nsess, verb))
        elif verb in ("PASV+FIN", "EPSV+FIN"):
            raw.send(verb[:4])
            raw.close()
            s["alive"] = False
            info["startup_cut"] = True
            trace.append((idx % nsess, verb))
        await asyncio.sleep(0.6)
        invariant(verb)
    for s in sess:
        if s["alive"]:
            s["raw"].close()
            s["alive"] = False
    await asyncio.sleep(1.0)
    invariant("all_sessions_gone")
    if pool_ports(server) != sorted(ports):
        raise Violation(f"C11/{info['tag']}/pool_not_restored", dict(pool=pool_ports(server), configured=list(ports)))
    await asyncio.wait_for(server.close(), 1000)


def run_history(ports, faults, nsess, events, tape=(), tag="faults", ipv6=False):
    info = dict(tag=tag, ipv6=ipv6)
    try:
        simnet.run(lambda loop: _history(loop, ports, faults, nsess, events, info), tape)
    finally:
        pass
    return info


HISTORIES = [
    [(0, "PASV"), (1, "EPSV"), (2, "EPSV"), (0, "PASV"), (0, "LIST"), (1, "QUIT"), (2, "DROP"), (1, "EPSV"), (0, "EPSV"), (0, "QUIT")],
    [(0, "EPSV"), (0, "DROP"), (1, "PASV"), (2, "PASV"), (1, "LIST"), (2, "EPSV"), (1, "DROP"), (2, "LIST"), (2, "QUIT"), (0, "PWD")],
    [(0, "EPSV+FIN"), (1, "EPSV"), (2, "PASV+FIN"), (1, "EPSV"), (1, "LIST"), (1, "QUIT"), (0, "PWD"), (2, "PWD"), (1, "PWD"), (0, "PWD")],
    [(0, "PASV"), (0, "REUSER"), (1, "EPSV"), (0, "EPSV"), (0, "LIST"), (1, "REUSER"), (1, "DROP"), (2, "EPSV"), (0, "QUIT"), (2, "REUSER"),
     (2, "PASV"), (2, "QUIT")],
    [(0, "PIPELINED"), (1, "PIPELINED"), (0, "LIST"), (1, "QUIT"), (2, "EPSV"), (0, "PIPELINED"), (0, "DROP"), (2, "PIPELINED"), (2, "LIST"), (2, "QUIT")],
    # four sessions: pool priorities diverge (a port busy twice), a session is refused, a port comes back, the next search
    # has to reach the port that is still free (F16)
    [(0, "PASV"), (1, "PASV"), (2, "PASV"), (1, "QUIT"), (3, "PASV"), (3, "LIST"), (0, "QUIT"), (3, "EPSV"), (2, "PWD"), (3, "QUIT")],
]


# the last history also runs on an IPv6 listener, where PASV is refused with 503 (the session may keep the listener it opened)
IPV6_HISTORY = [(0, "PASV"), (1, "EPSV"), (0, "EPSV"), (0, "LIST"), (2, "PASV"), (2, "PASV"), (1, "QUIT"), (2, "DROP"), (1, "PWD"), (0, "PASV"),
                (0, "QUIT")]
HISTORIES.append(IPV6_HISTORY)


def nsess_of(history):
    return 1 + max(i for i, _ in history)


def part_faults(ctx):
    keys = [(p, a) for p in PORTS for a in (1, 2)]
    patterns = list(itertools.product([0, 1, 2], repeat=len(keys)))
    cases = [(pi, hi) for pi in range(len(patterns)) for hi in range(len(HISTORIES))]
    ctx.extra["patterns"] = len(patterns) if ctx.shard == 0 else 0
    for pi, hi in cases[ctx.shard::ctx.nshards]:
        faults = {k: ERRS[v] for k, v in zip(keys, patterns[pi]) if v}
        info = dict(tag="faults")
        try:
            info = run_history(PORTS, faults, nsess_of(HISTORIES[hi]), HISTORIES[hi], tag="faults", ipv6=HISTORIES[hi] is IPV6_HISTORY)
        except Violation as v:
            ctx.fail(v.sig, dict(faults=[list(k) + [val] for k, val in faults.items()], history=hi), v.detail)
        ctx.count((patterns[pi], hi), bool(faults), sample=dict(faults={f"{k[0]}#{k[1]}": errno.errorcode[v] for k, v in faults.items()},
                                                               history=HISTORIES[hi], trace=info.get("trace")),
                  classes=["history_%d" % hi, "faults_%d" % len(faults)] + (["startup_cut"] if info.get("startup_cut") else []))
    ctx.exhaustive = False  # exhaustive over the 729 fault patterns, but only for these seven histories


def replay_faults(case):
    faults = {(p, a): e for p, a, e in case["faults"]}
    run_history(PORTS, faults, nsess_of(HISTORIES[case["history"]]), HISTORIES[case["history"]], tag="faults", ipv6=HISTORIES[case["history"]] is IPV6_HISTORY)


# ---------------------------------------------------------------- session end inside listener start-up
async def _startup(loop, how, n, passive, nports, nsess, fault_first):
    ports = PORTS[:nports]
    if fault_first:
        loop.net.bind_faults = {(ports[0], 1): errno.EADDRINUSE}
    server = aioftp.Server(path_io_factory=aioftp.MemoryPathIO, data_ports=as_configured(ports, n + nsess), wait_future_timeout=2)
    await server.start(HOST, PORT)
    raws = []
    for i in range(nsess):
        r = Raw(HOST, PORT, patience=20)
        await r.connect()
        await r.cmd("USER anonymous")
        raws.append(r)
    pend = {}
    it = [0]
    closers = []

    def ticker():
        it[0] += 1
        for f in pend.pop(it[0], []):
            f()
        if pend:
            loop.call_soon(ticker)

    def end():
        if how == "peer":
            for r in raws:
                r.close()
        else:
            closers.append(asyncio.ensure_future(server.close()))

    pend.setdefault(n + 1, []).append(end)
    for r in raws:
        r.send(passive)
    loop.call_soon(ticker)
    await asyncio.sleep(5)
    for r in raws:
        r.close()
    await asyncio.sleep(1)
    pool = pool_ports(server)
    listeners = sorted(p for (_h, p) in loop.net.listeners if p != PORT)
    problems = []
    if pool != sorted(ports):
        problems.append("port_lost" if set(ports) - set(pool) else "port_duplicated")
    if listeners:
        problems.append("listener_leaked")
    # the pool must still serve a fresh session (unless the server was closed)
    fresh = None
    if how == "peer" and nports:
        r = Raw(HOST, PORT, patience=20)
        await r.connect()
        await r.cmd("USER anonymous")
        fresh, _ = await r.cmd("EPSV")
        r.close()
        if fresh != "229":
            problems.append("pool_unusable_afterwards_" + fresh)
    closer = closers[0] if closers else asyncio.ensure_future(server.close())
    await asyncio.wait([closer], timeout=10000)
    if problems:
        raise Violation(f"C11/startup_{how}/{'+'.join(problems)}", dict(pool=pool, listeners=listeners, configured=ports, n=n,
                                                                      passive=passive, sessions=nsess, fresh=fresh))


def startup_cases(tier):
    out = []
    for how in ("peer", "shutdown"):
        for passive in ("EPSV", "PASV"):
            for nports, nsess in ((1, 1), (2, 2), (3, 2), (2, 3), (1, 2)):
                for ff in (False, True):
                    for n in range(0, 16 if tier == "quick" else 30):
                        out.append((how, n, passive, nports, nsess, ff))
    return out


def part_startup(ctx):
    for case in startup_cases(ctx.tier)[ctx.shard::ctx.nshards]:
        try:
            simnet.run(lambda loop: _startup(loop, *case))
        except Violation as v:
            ctx.fail(v.sig, dict(case=list(case)), v.detail)
        ctx.count(case, True, sample=dict(end=case[0], end_n_iterations_after_passive_sent=case[1], passive=case[2],
                                          pool_size=case[3], sessions=case[4], first_bind_busy=case[5]),
                  classes=["end_" + case[0], "pool_%d" % case[3], "sessions_%d" % case[4]])


def replay_startup(case):
    simnet.run(lambda loop: _startup(loop, *case["case"]))


# ---------------------------------------------------------------- Hypothesis histories
EVENT = st.tuples(st.integers(0, 3), st.sampled_from(["PASV", "EPSV", "EPSV", "LIST", "PWD", "QUIT", "DROP", "PASV+FIN", "EPSV+FIN", "REUSER", "PIPELINED"]))
FAULTS = st.lists(st.tuples(st.sampled_from(PORTS), st.integers(1, 4), st.sampled_from([errno.EADDRINUSE, errno.EADDRINUSE, errno.EACCES])),
                  max_size=6, unique_by=lambda x: (x[0], x[1]))
MACHINE = st.tuples(st.integers(0, 3), st.integers(1, 4), st.lists(EVENT, min_size=2, max_size=16), FAULTS,
                    st.lists(st.integers(0, 255), max_size=40))


def check_machine(ctx, case):
    nports, nsess, events, fault_list, tape = case
    faults = {(p, a): e for p, a, e in fault_list}
    info = dict(tag="machine")
    try:
        info = run_history(PORTS[:nports], dict(faults), nsess, events, tape, tag="machine")
    finally:
        nt = bool(info.get("faults_consumed")) or bool(info.get("startup_cut"))
        ctx.count([nports, nsess, events, sorted(faults.items()), tape], nt,
                  sample=dict(pool=PORTS[:nports], sessions=nsess, events=events, faults={f"{k[0]}#{k[1]}": v for k, v in faults.items()},
                              tape=tape[:8], trace=info.get("trace")),
                  classes=["pool_%d" % nports, "sessions_%d" % nsess] + (["fault_consumed"] if info.get("faults_consumed") else [])
                  + (["startup_cut"] if info.get("startup_cut") else []))


def part_machine(ctx):
    n = 500 if ctx.tier == "quick" else 30000
    hyp_run(ctx, MACHINE, lambda c: check_machine(ctx, c), n, name="machine")


def replay_machine(case):
    from vlib.runner import Ctx
    nports, nsess, events, faults, tape = case
    check_machine(Ctx(PROPERTY, "machine", "quick", 0, 0, 1), (nports, nsess, [tuple(e) for e in events], [tuple(f) for f in faults], tape))


def plan(tier):
    return [("faults", 8), ("startup", 4), ("machine", 8)]

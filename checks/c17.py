"""C17 - concurrent sessions do not interfere with each other (differential: interleaved vs solo)."""

import asyncio
import re

from hypothesis import strategies as st

from vlib import harness, simnet
from vlib.harness import HOST, PORT, aioftp, instrument
from vlib.runner import Violation, hyp_run
from vlib.scripts import CORPUS, PAY1, PAY2, PAY3, ScriptRunner, c, down, render, up

PROPERTY = "C17"
LEVEL = "exploration"
RULE = ("Hypothesis draws 2-3 scripts from a corpus of 12 (all verbs, STOR/APPE/RETR whole and restarted, LIST/MLSD, "
        "renames, relative paths after CWD, TYPE, re-login, ABOR, error replies), re-rooted to disjoint subtrees, each "
        "with a user (same anonymous user, or different password-protected users), a network schedule tape (per-segment "
        "latency and segmentation), backend delays (read/write/list/open/stat) and optionally a victim session that is "
        "cut (peer vanishes) at delivery event k while the others continue. Oracle: each surviving session's transcript "
        "(reply codes and texts, transferred bytes, listings; ports and timestamps normalised) equals the transcript of "
        "the same script run alone, and its subtree at the end equals the solo subtree. In a third of the different-user cases "
        "the users have their own base directories and all work under the SAME virtual names with different permissions "
        "on them (u2: /s/sub read-only, /s/x/y unreadable; u3: /s read-only). Non-trivial = at least two "
        "sessions had a transfer in flight at the same virtual time; distinct by hash of the case.")
ASSUMPTIONS = [
    "sessions work on disjoint subtrees (same-path concurrency is outside the property)",
    "normalisation: digits in 227/229 texts, MLSx Modify/Create facts and ls date columns are masked",
]
REPLAY_ATTEMPTS = 2

EXTRA = {
    "keep": [c("USER anonymous"), c("MKD {r}"), c("CWD {r}"), c("TYPE I"), c("EPSV"), up("STOR a", PAY1), up("APPE a", PAY2),
             c("REST 7"), up("STOR a", PAY2), c("MKD sub"), c("RNFR a"), c("RNTO sub/b"), c("CWD sub"), c("PWD"), down("RETR b"),
             c("REST 300"), down("RETR b"), down("MLSD"), c("CDUP"), c("PWD"), down("LIST sub")],
    "cwdwalk": [c("USER anonymous"), c("MKD {r}/x/y"), c("CWD {r}"), c("CWD x"), c("PWD"), c("CWD y"), c("PWD"), c("CDUP"), c("PWD"),
                c("PASV"), up("STOR file", PAY3, "after"), c("RNFR file"), c("CWD y"), c("RNTO moved"), c("PWD"), down("RETR moved", "after"),
                c("MLST moved"), c("TYPE A"), c("QUIT")],
    "rest_pending": [c("USER anonymous"), c("MKD {r}"), c("EPSV"), up("STOR {r}/p", PAY3), c("REST 1000"), c("PWD"), down("RETR {r}/p"),
                     c("RNFR {r}/p"), c("PWD"), c("RNTO {r}/q"), c("REST 2000"), down("RETR {r}/q"), c("QUIT")],
}
ALL = dict(CORPUS)
ALL.update(EXTRA)
NAMES = sorted(ALL)
USERS = [None, ("u1", "p1"), ("u2", "p2"), ("u3", "p3")]


def personalise(script, user, root=""):
    """Session-specific login lines and payload sizes (so that sizes / contents differ between concurrent sessions)."""
    out = []
    extra = root.encode() * (2 + sum(root.encode()) % 5)
    for s in script:
        if s.get("line") == "USER anonymous" and user is not None:
            out.append(c("USER " + user[0]))
            out.append(c("PASS " + user[1]))
        elif s.get("payload") is not None:
            s = dict(s)
            s["payload"] = s["payload"] + extra
            out.append(s)
        else:
            out.append(s)
    return out


def normalise(transcript):
    out = []
    for rec in transcript:
        d = rec.get("data")
        if d is not None:
            d = re.sub(rb"(Modify|Create)=\d+;", b"", d)
            d = re.sub(rb"[A-Z][a-z]{2} [ \d]\d (\d\d:\d\d| \d{4})", b"<date>", d)
        text = rec.get("text")
        codes = tuple(rec["codes"])
        if codes[:1] in (("227",), ("229",)) and text:
            text = re.sub(r"\d+", "N", text)
        out.append((rec.get("line"), codes, text, d))
    return out


VROOT = "/s"
# users of the `vroots` mode: own base directory each, the same virtual names, different rights on them
VPERMS = {"u1": [], "u2": [("/s/sub", True, False), ("/s/x/y", False, True)], "u3": [("/s", True, False)]}


def make_server(delays=None, vroots=False, tmp=None):
    """tmp None: instrumented MemoryPathIO; otherwise instrumented PathIO (a backend without shared state) below tmp."""
    ctl = harness.Ctl()
    ctl.record = False
    if delays:
        ctl.delays = dict(delays)
    base = tmp or ""
    if vroots:
        users = [aioftp.User(u[0], u[1], base_path=base + "/base_" + u[0], home_path="/",
                             permissions=[aioftp.Permission("/")] + [aioftp.Permission(p_, readable=r_, writable=w_) for p_, r_, w_ in VPERMS[u[0]]])
                 for u in USERS if u]
    else:
        users = [aioftp.User(base_path=base or ".")] + [aioftp.User(u[0], u[1], base_path=base or ".") for u in USERS if u]
    server = aioftp.Server(users, path_io_factory=instrument(aioftp.PathIO if tmp else aioftp.MemoryPathIO, ctl), wait_future_timeout=2,
                           block_size=128)
    server.verif_ctl = ctl
    return server


def prepare(server, vroots, tmp=None):
    if vroots:
        if tmp:
            harness.fs_populate(tmp, {"/base_" + u[0]: harness.DIR for u in USERS if u})
        else:
            harness.mem_populate(server, {"/base_" + u[0]: harness.DIR for u in USERS if u})


def tree_of(server, tmp):
    return harness.fs_tree(tmp) if tmp else harness.mem_tree(server)


def subtree(tree, root):
    return {k: v for k, v in tree.items() if k == root or k.startswith(root + "/")}


_SOLO = {}


def real_root(root, user, vroots):
    return "/base_" + user[0] if vroots else root  # everything below the user's base directory


def solo(name, root, user, vroots=False, fs=False):
    key = (name, root, user, vroots, fs)
    if key not in _SOLO:
        td = harness.TempDirs() if fs else None
        tmp = td.new() if fs else None

        async def go(loop):
            server = make_server(vroots=vroots, tmp=tmp)
            await server.start(HOST, PORT)
            prepare(server, vroots, tmp)
            r = ScriptRunner(render(personalise(ALL[name], user, root), root))
            await r.run()
            r.close()
            await asyncio.sleep(0.5)
            tree = tree_of(server, tmp)
            await server.close()
            return normalise(r.transcript), subtree(tree, real_root(root, user, vroots))

        try:
            _SOLO[key] = simnet.run(go)
        finally:
            if td:
                td.cleanup()
    return _SOLO[key]


async def _concurrent(loop, sessions, delays, cut, info, vroots=False, tmp=None):
    server = make_server(delays, vroots, tmp)
    await server.start(HOST, PORT)
    prepare(server, vroots, tmp)
    runners = [ScriptRunner(render(personalise(ALL[name], user, root), root)) for name, root, user in sessions]
    # attribution: the backend instance that touches a session's subtree carries that session's connection object
    ctl = server.verif_ctl
    base_hit = ctl.hit
    owners = [real_root(root, user, vroots).strip("/").split("/")[0] for name, root, user in sessions]

    async def hit(name, path=None, conn=None):
        if path is not None and conn is not None and "stray" not in info:
            parts = str(path)[len(tmp or ""):].strip("/").split("/")
            if parts and parts[0] in owners:
                port = conn.client_port
                mine = [i for i, r_ in enumerate(runners) if r_.raw.w is not None and r_.raw.w.get_extra_info("sockname")[1] == port]
                if mine and owners[mine[0]] != parts[0] and owners.count(parts[0]) == 1:
                    info["stray"] = dict(operation=name, path=str(path), backend_instance_belongs_to_session=mine[0],
                                         path_belongs_to_session=owners.index(parts[0]))
        return await base_hit(name, path, conn)

    ctl.hit = hit
    overlap = [0]

    def count_overlap():
        n = 0
        for conn in list(server.connections.values()):
            if any(not w.done() for w in conn.extra_workers):
                n += 1
        if n >= 2:
            overlap[0] += 1

    def hook(k, kind, tr):
        if k % 3 == 0:
            count_overlap()
        if cut is not None and k == cut[1]:
            v = runners[cut[0] % len(runners)]
            for w in [v.raw.w] + list(v.all_writers):
                if w is not None:
                    w.transport.close()
            info["cut_done"] = True

    loop.net.event_hooks.append(hook)
    tasks = [asyncio.ensure_future(r.run()) for r in runners]
    done, pending = await asyncio.wait(tasks, timeout=10000)
    for t in pending:
        t.cancel()
    for r in runners:
        r.close()
    await asyncio.sleep(1.0)
    tree = tree_of(server, tmp)
    await asyncio.wait_for(server.close(), 1000)
    info["overlap"] = overlap[0]
    info["hung"] = bool(pending)
    return [normalise(r.transcript) for r in runners], tree


def check(ctx, case):
    picks, same_user, tape, delays, cut = case
    sessions = []
    # third mode (drawn through the first pick): different users, each confined to its own base directory, all working
    # under the SAME virtual names with different rights on them - what one user may do under a name says nothing about another
    vroots = (not same_user) and picks[0] % 3 == 0
    fs = picks[-1] % 4 == 0  # a quarter of the cases on the real file system (PathIO: a backend without shared state)
    for i, ni in enumerate(picks):
        user = None if same_user else USERS[1 + i % 3]
        sessions.append((NAMES[ni % len(NAMES)], VROOT if vroots else "/s%d" % i, user))
    info = {}
    victim = None
    if cut is not None:
        victim = cut[0] % len(sessions)
    td = harness.TempDirs() if fs else None
    tmp = td.new() if fs else None
    try:
        transcripts, tree = simnet.run(lambda loop: _concurrent(loop, sessions, dict(delays), cut, info, vroots, tmp), tape)
        if info.get("stray"):
            raise Violation("C17/backend_instance_of_another_session_used", dict(sessions=sessions, **info["stray"]))
        if info.get("hung"):
            raise Violation("C17/session_hung", dict(sessions=sessions))
        for i, (name, root, user) in enumerate(sessions):
            if i == victim and info.get("cut_done"):
                continue
            exp_t, exp_tree = solo(name, root, user, vroots, fs)
            got = transcripts[i]
            if got != exp_t:
                j = next((k for k, (a, b) in enumerate(zip(got, exp_t)) if a != b), min(len(got), len(exp_t)))
                a = got[j] if j < len(got) else None
                b = exp_t[j] if j < len(exp_t) else None
                what = "codes" if (a and b and a[1] != b[1]) or a is None or b is None else ("data" if a[3] != b[3] else "text")
                verb = ((b or a)[0] or "greeting").split(" ")[0].upper()
                raise Violation(f"C17/transcript_differs_from_solo/{what}/{verb}",
                                dict(session=i, script=name, user=user, step=j, got=a, solo=b, others=[s for k, s in enumerate(sessions) if k != i],
                                     cut=cut if info.get("cut_done") else None))
            if subtree(tree, real_root(root, user, vroots)) != exp_tree:
                raise Violation("C17/final_subtree_differs_from_solo", dict(session=i, script=name, user=user, same_virtual_names=vroots,
                                                                              got=sorted(subtree(tree, real_root(root, user, vroots))),
                                                                              solo=sorted(exp_tree)))
    finally:
        if td:
            td.cleanup()
        ctx.count(case, info.get("overlap", 0) > 0,
                  sample=dict(sessions=[(n, r, u[0] if u else "anonymous") for n, r, u in sessions], tape=tape[:8], delays=delays,
                              cut=cut, transfers_overlapping_samples=info.get("overlap")),
                  classes=["n_%d" % len(sessions), "same_user" if same_user else ("same_virtual_names" if vroots else "different_users")]
                  + (["overlap"] if info.get("overlap") else []) + (["cut"] if info.get("cut_done") else []) + ["backend_fs" if fs else "backend_mem"]
                  + ["script_" + s[0] for s in sessions])


DELAYS = st.lists(st.tuples(st.sampled_from(["read", "write", "list.next", "_open", "stat", "exists", "rename", "is_file", "is_dir", "is_file", "close",
                                              "seek", "mkdir", "unlink"]),
                            st.sampled_from([0.001, 0.02, 0.3])), max_size=3, unique_by=lambda x: x[0])
CASE = st.tuples(st.lists(st.integers(0, 50), min_size=2, max_size=3), st.booleans(), st.lists(st.integers(0, 255), max_size=80),
                 DELAYS, st.one_of(st.none(), st.tuples(st.integers(0, 2), st.integers(1, 250))))


def part_pairs(ctx):
    n = 250 if ctx.tier == "quick" else 6000
    hyp_run(ctx, CASE, lambda c: check(ctx, c), n, name="pairs")


def replay_pairs(case):
    from vlib.runner import Ctx
    picks, same_user, tape, delays, cut = case
    check(Ctx(PROPERTY, "pairs", "quick", 0, 0, 1), (picks, same_user, tape, [tuple(d) for d in delays], tuple(cut) if cut else None))


def plan(tier):
    return [("pairs", 16)]

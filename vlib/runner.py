"""Runner: sharding over 16 processes, Hypothesis driving with collect-then-continue rounds,
signature classification against KNOWN_FINDINGS, replay files, evidence files, exit protocol.

Exit codes: 0 property held on everything explored (KNOWN-FINDING lines allowed),
            1 at least one VIOLATION line,
            2 harness error / inconclusive (never a VIOLATION line).
"""

import collections
import concurrent.futures
import hashlib
import importlib
import json
import os
import sys
import time
import traceback

VERIF = os.path.dirname(os.path.dirname(os.path.abspath(__file__)))
NPROC = int(os.environ.get("VERIF_NPROC", "16"))


# ------------------------------------------------------------------ json with bytes
class _Enc(json.JSONEncoder):
    def default(self, o):
        if isinstance(o, (bytes, bytearray)):
            return {"__bytes__": bytes(o).hex()}
        if isinstance(o, (set, frozenset)):
            return sorted(o)
        if isinstance(o, tuple):
            return list(o)
        return repr(o)


def _dec_hook(d):
    if len(d) == 1 and "__bytes__" in d:
        return bytes.fromhex(d["__bytes__"])
    return d


def dumps(o, **kw):
    return json.dumps(o, cls=_Enc, ensure_ascii=True, **kw)


def loads(s):
    return json.loads(s, object_hook=_dec_hook)


def fingerprint(o):
    return hashlib.sha1(dumps(o, sort_keys=True).encode()).hexdigest()[:16]


def brief(o, limit=600):
    s = dumps(o)
    if len(s) > limit:
        return loads(dumps(_shorten(o)))
    return loads(s)


def _shorten(o, depth=0):
    if isinstance(o, (bytes, bytearray)):
        return f"<{len(o)} bytes {bytes(o[:12]).hex()}..>" if len(o) > 24 else o
    if isinstance(o, str):
        return o if len(o) <= 120 else o[:100] + f"...<{len(o)} chars>"
    if isinstance(o, dict):
        return {k: _shorten(v, depth + 1) for k, v in list(o.items())[:40]}
    if isinstance(o, (list, tuple)):
        r = [_shorten(v, depth + 1) for v in o[:24]]
        if len(o) > 24:
            r.append(f"...<{len(o)} items>")
        return r
    return o


# ------------------------------------------------------------------ violations
class Violation(Exception):
    """Raised by an oracle.  sig identifies the root-cause class (call site + symptom)."""

    def __init__(self, sig, detail=None):
        super().__init__(sig)
        self.sig = sig
        self.detail = detail


class Ctx:
    """Per-worker collector."""

    def __init__(self, prop, part, tier, seed, shard, nshards, suppressed=()):
        self.prop, self.part, self.tier, self.seed = prop, part, tier, seed
        self.shard, self.nshards = shard, nshards
        self.evaluations = 0
        self.nontrivial = set()
        self.classes = collections.Counter()
        self.samples = []
        self.excluded = collections.Counter()
        self.failures = []  # dict(sig, case, detail, part)
        self.suppressed = set(suppressed)
        self.extra = {}
        self.harness_errors = []
        self.exhaustive = None

    # -- bookkeeping helpers used by check bodies
    def count(self, case_fp_obj, nontrivial, sample=None, classes=()):
        self.evaluations += 1
        if nontrivial:
            self.nontrivial.add(fingerprint(case_fp_obj))
            if sample is not None and len(self.samples) < 4:
                self.samples.append(brief(sample))
        for c in classes:
            self.classes[c] += 1

    def cls(self, *names):
        for n in names:
            self.classes[n] += 1

    def fail(self, sig, case, detail=None):
        """Record a violation found outside Hypothesis (enumerations)."""
        if sig in self.suppressed:
            self.excluded[sig] += 1
            return
        self.suppressed.add(sig)
        self.failures.append(dict(sig=sig, case=case, detail=detail, part=self.part))

    def result(self):
        return dict(
            part=self.part, shard=self.shard, evaluations=self.evaluations,
            nontrivial=sorted(self.nontrivial), classes=dict(self.classes),
            samples=self.samples, excluded=dict(self.excluded), failures=self.failures,
            extra=self.extra, harness_errors=self.harness_errors, exhaustive=self.exhaustive,
        )


def derive_seed(seed, *parts):
    h = hashlib.sha1(repr((seed,) + parts).encode()).digest()
    return int.from_bytes(h[:4], "big")


def hyp_run(ctx, strategy, body, max_examples, *, name, shrink_seconds=None, rounds=5,
            stateful_steps=None):
    """Drive body(case) with Hypothesis.  body raises Violation on an oracle failure.

    Collect-then-continue: a violation is shrunk, recorded, its signature is suppressed and
    the search resumes (new derived seed) so that one run can list several root causes.
    A signature listed in ctx.suppressed (known findings) is counted under `excluded` and the
    case passes, so the search continues behind known findings.
    """
    import hypothesis
    from hypothesis import HealthCheck, Phase, given, settings

    if shrink_seconds is None:
        shrink_seconds = 45 if ctx.tier == "quick" else 200
    per_round = max_examples
    for rnd in range(rounds):
        state = dict(first_fail_at=None, best=None)

        def wrapped(case):
            if state["first_fail_at"] is not None and time.time() - state["first_fail_at"] > shrink_seconds:
                # shrink budget used up: everything except the best known failing case passes
                if fingerprint(case) != state["best"][0]:
                    return
            try:
                body(case)
            except Violation as v:
                if v.sig in ctx.suppressed:
                    ctx.excluded[v.sig] += 1
                    return
                if state["first_fail_at"] is None:
                    state["first_fail_at"] = time.time()
                state["best"] = (fingerprint(case), case, v)
                raise

        test = given(strategy)(wrapped)
        test = hypothesis.seed(derive_seed(ctx.seed, ctx.part, name, ctx.shard, rnd))(test)
        test = settings(
            max_examples=per_round, database=None, deadline=None, derandomize=False,
            report_multiple_bugs=False, print_blob=False,
            suppress_health_check=[HealthCheck.too_slow, HealthCheck.data_too_large,
                                   HealthCheck.large_base_example],
            phases=[Phase.generate, Phase.target, Phase.shrink],
        )(test)
        try:
            test()
            return
        except Violation:
            fp, case, v = state["best"]
            ctx.suppressed.add(v.sig)
            ctx.failures.append(dict(sig=v.sig, case=case, detail=v.detail, part=ctx.part, name=name))
            per_round = max(10, max_examples // 2)
            continue
        except hypothesis.errors.Flaky as e:  # nondeterminism: report what we have, as harness note
            if state["best"] is not None:
                fp, case, v = state["best"]
                ctx.suppressed.add(v.sig)
                ctx.failures.append(dict(sig=v.sig, case=case, detail=v.detail, part=ctx.part,
                                         name=name, flaky=True))
                continue
            ctx.harness_errors.append(f"{name}: Flaky: {e}")
            return


# ------------------------------------------------------------------ known findings
def load_known(prop):
    known, fixed = {}, []
    path = os.path.join(VERIF, "KNOWN_FINDINGS")
    if not os.path.exists(path):
        return known, fixed
    for line in open(path, encoding="utf-8"):
        line = line.strip()
        if not line or line.startswith("#"):
            continue
        if line.startswith("known:"):
            head, _, desc = line[len("known:"):].partition("::")
            fields = dict(f.split("=", 1) for f in head.split() if "=" in f)
            if fields.get("property") == prop:
                known[fields["sig"]] = desc.strip()
        elif line.startswith("fixed:"):
            fixed.append(line)
    return known, fixed


# ------------------------------------------------------------------ worker entry
def _worker(args):
    modname, part, tier, seed, shard, nshards, suppressed, src = args
    os.environ["AIOFTP_SRC"] = src
    t0 = time.time()
    try:
        mod = importlib.import_module(modname)
        ctx = Ctx(mod.PROPERTY, part, tier, seed, shard, nshards, suppressed)
        getattr(mod, "part_" + part)(ctx)
        r = ctx.result()
    except BaseException as e:  # noqa
        r = dict(part=part, shard=shard, evaluations=0, nontrivial=[], classes={}, samples=[],
                 excluded={}, failures=[], extra={}, exhaustive=None,
                 harness_errors=[f"{part}[{shard}]: {type(e).__name__}: {e}\n{traceback.format_exc()}"])
    r["wall_s"] = time.time() - t0
    return r


def bootstrap_path():
    src = os.environ.get("AIOFTP_SRC", "/repo/src")
    if src not in sys.path:
        sys.path.insert(0, src)
    return src


def main(modname, argv=None):
    import argparse

    mod = importlib.import_module(modname)
    ap = argparse.ArgumentParser()
    ap.add_argument("--tier", default=os.environ.get("VERIF_TIER", "quick"), choices=["quick", "thorough"])
    ap.add_argument("--seed", type=int, default=int(os.environ.get("VERIF_SEED", "1") or 1))
    ap.add_argument("--replay", default=None)
    ap.add_argument("--parts", default=None, help="comma separated subset of parts")
    ap.add_argument("--no-evidence", action="store_true")
    ap.add_argument("--serial", action="store_true")
    a = ap.parse_args(argv)
    prop = mod.PROPERTY
    src = bootstrap_path()
    os.environ.setdefault("PYTHONHASHSEED", "0")
    known, _fixed = load_known(prop)

    if a.replay:
        return _replay_one(mod, a.replay, known)

    t0 = time.time()
    os.makedirs(os.path.join(VERIF, "replays"), exist_ok=True)
    for fn in os.listdir(os.path.join(VERIF, "replays")):
        if fn.startswith(prop + "-") and fn.endswith(".json"):
            os.remove(os.path.join(VERIF, "replays", fn))
    plan = mod.plan(a.tier)  # list of (part, nshards)
    if a.parts:
        want = set(a.parts.split(","))
        plan = [(p, n) for p, n in plan if p in want]
    jobs = []
    for part, n in plan:
        for sh in range(n):
            jobs.append((modname, part, a.tier, a.seed, sh, n, sorted(known), src))

    results = []
    # replay tier first: committed replay files of this property
    replay_notes = _replay_tier(mod, known)

    if a.serial or NPROC == 1:
        results = [_worker(j) for j in jobs]
    else:
        import multiprocessing

        mpctx = multiprocessing.get_context("fork")
        with concurrent.futures.ProcessPoolExecutor(max_workers=min(NPROC, max(1, len(jobs))), mp_context=mpctx) as ex:
            results = list(ex.map(_worker, jobs))

    # merge
    evaluations = sum(r["evaluations"] for r in results)
    nontrivial = set()
    classes = collections.Counter()
    excluded = collections.Counter()
    samples = []
    failures = []
    harness = []
    per_part = collections.OrderedDict()
    for r in results:
        nontrivial.update(f"{r['part']}:{x}" for x in r["nontrivial"])
        classes.update({f"{r['part']}.{k}": v for k, v in r["classes"].items()})
        excluded.update(r["excluded"])
        harness.extend(r["harness_errors"])
        failures.extend(r["failures"])
        pp = per_part.setdefault(r["part"], dict(evaluations=0, distinct_nontrivial=set(), wall_s=0.0, shards=0, extra={}))
        pp["evaluations"] += r["evaluations"]
        pp["distinct_nontrivial"].update(r["nontrivial"])
        pp["wall_s"] = max(pp["wall_s"], r["wall_s"])
        pp["shards"] += 1
        if r.get("exhaustive") is not None:
            pp["exhaustive"] = bool(r["exhaustive"]) and pp.get("exhaustive", True)
        for k, v in (r.get("extra") or {}).items():
            if isinstance(v, (int, float)) and not isinstance(v, bool):
                pp["extra"][k] = pp["extra"].get(k, 0) + v
            else:
                pp["extra"].setdefault(k, v)
    # samples: round robin over parts
    by_part = collections.OrderedDict()
    for r in results:
        by_part.setdefault(r["part"], []).extend(r["samples"])
    for part, ss in by_part.items():
        for s in ss[:3]:
            samples.append({"part": part, "case": s})
    for pp in per_part.values():
        pp["distinct_nontrivial"] = len(pp["distinct_nontrivial"])
        pp["wall_s"] = round(pp["wall_s"], 2)

    # classify failures
    new, seen_known = [], collections.OrderedDict()
    for sig, desc in replay_notes["known_seen"].items():
        seen_known[sig] = desc
    new.extend(replay_notes["violations"])
    os.makedirs(os.path.join(VERIF, "replays"), exist_ok=True)
    seen_sigs = set()
    for f in failures:
        if f["sig"] in known:
            seen_known[f["sig"]] = known[f["sig"]]
            continue
        if f["sig"] in seen_sigs:
            continue
        seen_sigs.add(f["sig"])
        rp = os.path.join("replays", f"{prop}-{f['part']}-{fingerprint(f['sig'])}.json")
        with open(os.path.join(VERIF, rp), "w") as fh:
            fh.write(dumps(dict(property=prop, part=f["part"], signature=f["sig"], case=f["case"],
                                detail=f.get("detail"), seed=a.seed, tier=a.tier), indent=1))
        new.append((f["sig"], rp))
    for sig in excluded:
        if sig in known:
            seen_known[sig] = known[sig]

    wall = time.time() - t0
    if not a.no_evidence:
        ev = dict(
            property_id=prop, tier=a.tier, seed=a.seed, level=mod.LEVEL,
            coverage=dict(
                evaluations=evaluations, distinct_nontrivial=len(nontrivial), rule=mod.RULE,
                samples=samples, classes=dict(sorted(classes.items())), parts=per_part,
                excluded_known_finding_cases=dict(excluded),
                replay_tier=replay_notes["summary"],
            ),
            assumptions=list(getattr(mod, "ASSUMPTIONS", [])),
            wall_s=round(wall, 2), violations=len(new),
            known_findings_seen=list(seen_known),
        )
        tv = sum(pp["extra"].get("traces_validated_against_impl", 0) for pp in per_part.values())
        if tv:
            ev["coverage"]["traces_validated_against_impl"] = tv
        exh = [pp.get("exhaustive") for pp in per_part.values() if "exhaustive" in pp]
        if exh and all(exh) and len(exh) == len(per_part):
            ev["coverage"]["exhaustive"] = True
        if harness:
            ev["coverage"]["harness_errors"] = harness[:5]
        os.makedirs(os.path.join(VERIF, "evidence"), exist_ok=True)
        with open(os.path.join(VERIF, "evidence", f"{prop}.json"), "w") as fh:
            fh.write(dumps(ev, indent=1))

    for sig, desc in seen_known.items():
        print(f"KNOWN-FINDING: property={prop} {desc} [sig={sig}]")
    for sig, rp in new:
        print(f"VIOLATION property={prop} replay={rp}")
        print(f"  signature: {sig}")
    print(f"{prop} {a.tier} seed={a.seed}: evaluations={evaluations} distinct_nontrivial={len(nontrivial)} "
          f"violations={len(new)} known={len(seen_known)} excluded={sum(excluded.values())} wall={wall:.1f}s")
    for part, pp in per_part.items():
        print(f"   part {part}: evals={pp['evaluations']} nontrivial={pp['distinct_nontrivial']} wall={pp['wall_s']}s {pp['extra'] or ''}")
    if new:
        return 1
    if harness:
        print("HARNESS-ERROR (inconclusive):")
        for h in harness[:5]:
            print(h)
        return 2
    return 0


def _replay_case(mod, data):
    part = data["part"]
    fn = getattr(mod, "replay_" + part, None)
    if fn is None:
        raise RuntimeError(f"no replay function for part {part}")
    attempts = getattr(mod, "REPLAY_ATTEMPTS", 1)
    for _ in range(attempts):
        try:
            fn(data["case"])
        except Violation as v:
            return v
    return None


def _replay_tier(mod, known):
    """Run all committed replay files of this property (regressions + witnesses)."""
    prop = mod.PROPERTY
    out = dict(known_seen=collections.OrderedDict(), violations=[], summary=dict(files=0, pass_=0, known=0, fail=0))
    d = os.path.join(VERIF, "replays", "committed")
    if not os.path.isdir(d):
        return out
    for fn in sorted(os.listdir(d)):
        if not fn.startswith(prop + "-") or not fn.endswith(".json"):
            continue
        data = loads(open(os.path.join(d, fn)).read())
        out["summary"]["files"] += 1
        try:
            v = _replay_case(mod, data)
        except Exception as e:  # noqa
            print(f"replay {fn}: harness error {type(e).__name__}: {e}")
            continue
        if v is None:
            out["summary"]["pass_"] += 1
        elif v.sig in known:
            out["summary"]["known"] += 1
            out["known_seen"][v.sig] = known[v.sig]
        else:
            out["summary"]["fail"] += 1
            out["violations"].append((v.sig, os.path.join("replays", "committed", fn)))
    return out


def _replay_one(mod, path, known):
    data = loads(open(path).read())
    v = _replay_case(mod, data)
    prop = mod.PROPERTY
    if v is None:
        print(f"replay {path}: property held")
        return 0
    if v.sig in known:
        print(f"KNOWN-FINDING: property={prop} {known[v.sig]} [sig={v.sig}]")
        return 0
    print(f"VIOLATION property={prop} replay={path}")
    print(f"  signature: {v.sig}")
    print(f"  detail: {dumps(brief(v.detail))}")
    return 1

"""Scripted sessions: a small step language, a runner on top of the raw wire client, and the corpus.

A step is a dict:  line   - the command line
                   xfer   - None | "up" | "down"   (transfer commands)
                   payload- bytes to upload
                   connect- "before" (data connection made before the command, as aioftp's client does),
                            "after" (after the 150), "never" (wait for the 425)
Scripts are templates: "{r}" is replaced by the session's root directory so that sessions can be
re-rooted to disjoint subtrees.
"""

import asyncio

from vlib.harness import Raw, read_all

PAY1 = bytes(range(256)) * 3 + b"\r\n\r\n\x00\xff\xff" * 5
PAY2 = b"0123456789"
PAY3 = bytes((i * 7) % 251 for i in range(2100))


def c(line):
    return dict(line=line, xfer=None)


def up(line, payload, connect="before"):
    return dict(line=line, xfer="up", payload=payload, connect=connect)


def down(line, connect="before"):
    return dict(line=line, xfer="down", connect=connect)


LOGIN = [c("USER anonymous")]

CORPUS = {
    "tour": LOGIN + [
        c("PWD"), c("MKD {r}"), c("CWD {r}"), c("EPSV"), up("STOR f", PAY1), down("RETR f"), down("LIST"),
        down("MLSD"), c("MLST f"), c("REST 3"), down("RETR f"), up("APPE f", PAY2), c("RNFR f"), c("RNTO g"),
        c("TYPE I"), c("SYST"), c("CDUP"), c("DELE {r}/g"), c("RMD {r}"), c("QUIT")],
    "pasv_after": LOGIN + [
        c("MKD {r}"), c("PASV"), up("STOR {r}/a", PAY3, "after"), down("RETR {r}/a", "after"),
        down("LIST {r}", "after"), c("PASV"), down("MLSD {r}", "after"), c("DELE {r}/a"), c("RMD {r}"), c("QUIT")],
    "restart": LOGIN + [
        c("MKD {r}"), c("EPSV"), up("STOR {r}/a", PAY3), c("REST 100"), up("STOR {r}/a", PAY2), c("REST 2000"),
        down("RETR {r}/a"), c("REST 5"), up("APPE {r}/a", PAY2), down("RETR {r}/a"),
        # restart offsets aimed at files that do not exist
        c("REST 5"), up("STOR {r}/never-existed", PAY2), c("REST 3"), up("APPE {r}/never-existed", PAY2), c("DELE {r}/never-existed"),
        c("DELE {r}/a"), c("RMD {r}"), c("QUIT")],
    "errors": LOGIN + [
        c("CWD {r}/missing"), c("RMD {r}/missing"), c("DELE {r}/missing"), c("RNTO x"), c("FOO"), c("TYPE E"),
        c("LIST"), c("EPSV"), down("RETR {r}/missing"), c("MKD {r}"), c("MKD {r}"), down("LIST {r}", "never"),
        c("PWD"), c("RMD {r}"), c("QUIT")],
    "relogin": [
        c("PWD"), c("USER anonymous"), c("MKD {r}"), c("USER anonymous"), c("CWD {r}"), c("EPSV"),
        up("STOR x", PAY2), c("USER nobody-knows"), c("PWD"), c("USER anonymous"), c("DELE {r}/x"), c("RMD {r}"),
        c("QUIT")],
    "abort": LOGIN + [
        c("MKD {r}"), c("EPSV"), up("STOR {r}/a", PAY3), c("ABOR"), down("RETR {r}/a"), c("ABOR"), c("DELE {r}/a"),
        c("RMD {r}"), c("QUIT")],
    "unused_data": LOGIN + [
        c("MKD {r}"), c("EPSV"), dict(line=None, xfer="connect_only"), c("PWD"), c("EPSV"),
        dict(line=None, xfer="connect_only"), c("PASV"), up("STOR {r}/a", PAY2), c("DELE {r}/a"), c("RMD {r}"),
        c("QUIT")],
    "unused_data_relogin": LOGIN + [
        c("MKD {r}"), c("EPSV"), dict(line=None, xfer="connect_only"), c("USER anonymous"), c("PWD"), down("LIST {r}"),
        c("EPSV"), dict(line=None, xfer="connect_only"), c("USER anonymous"), c("RMD {r}"), c("QUIT")],
    "noquit": LOGIN + [c("MKD {r}"), c("EPSV"), up("STOR {r}/a", PAY1), down("MLSD {r}"), c("DELE {r}/a"), c("RMD {r}")],
}


def render(script, root):
    out = []
    for s in script:
        s = dict(s)
        if s.get("line"):
            s["line"] = s["line"].replace("{r}", root)
        out.append(s)
    return out


class ScriptRunner:
    """Runs one script on one raw connection; stops quietly when its sockets die."""

    def __init__(self, script, *, host="127.0.0.1", port=2121, patience=50.0):
        self.script = script
        self.raw = Raw(host, port, patience)
        self.transcript = []  # dict(line, codes, data)
        self.data = None  # (reader, writer) of a data connection not yet used
        self.step = -1
        self.dead = False
        self.writes = 0
        self.all_writers = []

    async def _open_data(self):
        try:
            rw = await self.raw.open_data()
        except (ConnectionError, OSError):
            return None
        self.all_writers.append(rw[1])
        return rw

    async def run(self):
        try:
            code, _ = await self.raw.connect()
            self.transcript.append(dict(line=None, codes=[code]))
            if code != "220":
                return self.transcript
            for i, st in enumerate(self.script):
                self.step = i
                ok = await self.do(st)
                if not ok:
                    break
        except (ConnectionError, OSError, asyncio.IncompleteReadError):
            self.dead = True
        return self.transcript

    async def do(self, st):
        raw = self.raw
        rec = dict(line=st.get("line"), codes=[])
        self.transcript.append(rec)
        if st.get("xfer") == "connect_only":
            self.data = await self._open_data()
            await asyncio.sleep(0.3)
            return True
        if st.get("xfer") and st.get("connect") == "before" and self.data is None and raw.passive_port:
            self.data = await self._open_data()
            await asyncio.sleep(0.3)  # let the server accept it (aioftp's client has a round trip here too)
        code, lines = await raw.cmd(st["line"])
        rec["codes"].append(code)
        rec["text"] = lines[-1][4:] if lines else None
        if code in ("EOF", "SILENCE", "GARBAGE"):
            return False
        if code in ("227", "229") and self.data is not None:
            # the server drops a data connection that was never used when PASV/EPSV is repeated
            self.data[1].close()
            self.data = None
        if st.get("xfer") and code == "150":
            if st["connect"] == "after" and self.data is None:
                self.data = await self._open_data()
            if st["connect"] == "never" or self.data is None:
                code2, _ = await raw.reply()
                rec["codes"].append(code2)
                return code2 not in ("EOF", "SILENCE")
            r, w = self.data
            self.data = None
            if st["xfer"] == "up":
                w.write(st["payload"])
                w.close()
                code2, _ = await raw.reply()
                rec["codes"].append(code2)
            else:
                data, eof = await read_all(r)
                rec["data"] = data
                rec["eof"] = eof
                w.close()
                code2, _ = await raw.reply()
                rec["codes"].append(code2)
            if code2 in ("EOF", "SILENCE"):
                return False
        if code == "221":
            return False
        return True

    def close(self):
        self.raw.close()
        for w in self.all_writers:
            w.close()

"""simnet: a virtual-time asyncio event loop with an in-memory TCP-like network.

The unmodified aioftp client and server run on it (they only use asyncio.start_server,
asyncio.open_connection, loop.time/call_at and loop.run_in_executor).  The harness owns

* the clock      (virtual; a timer never costs wall time),
* the schedule   (per-segment latency, segmentation, accept delay, executor completion delay,
                  all read from a *tape* of small integers drawn by Hypothesis; an exhausted
                  tape means "zero latency, whole segments"),
* faults         (bind failures per (port, attempt), abrupt closes at delivery event k),
* a ledger       (every transport and listener ever created, with open/close virtual times).

Only behaviours TCP + asyncio can really produce are modelled: per-direction FIFO, arbitrary
finite delay, arbitrary segmentation, FIN after all data, RST when data reaches a closed
endpoint, RST for connections queued on a listener that is closed before accept,
write-buffer high/low water marks, and receiver-side pause_reading back pressure.
"""

import asyncio
import collections
import errno
import math
import socket
from asyncio import base_events, transports

LATENCIES = (0.0, 1e-6, 0.001, 0.02, 0.25)
SEGMENTS = (1 << 30, 1, 2, 3, 7, 50, 1000)
EXEC_DELAYS = (0, 1, 2, 5)


class Quiescent(Exception):
    """No ready callbacks, no timers, nothing in flight: the system would wait forever."""


class VirtualClockOverflow(Exception):
    """The only thing left to do is to wait for a timer more than 30 000 years away (or at infinity / NaN)."""


class Tape:
    """Sequence of small integers that decides every network choice.  Exhausted = 0."""

    def __init__(self, values=()):
        self.values = list(values)
        self.pos = 0

    def draw(self, n):
        if self.pos < len(self.values):
            v = self.values[self.pos] % n
        else:
            v = 0
        self.pos += 1
        return v


class _FakeSelector:
    def __init__(self, loop):
        self.loop = loop

    def select(self, timeout):
        loop = self.loop
        if timeout is None:
            if loop._quiesce_waiters:
                waiters, loop._quiesce_waiters = loop._quiesce_waiters, []
                for w in waiters:
                    if not w.done():
                        w.set_result(True)
                return []
            raise Quiescent()
        if timeout > 0:
            if timeout >= base_events.MAXIMUM_SELECT_TIMEOUT and loop._scheduled:
                # asyncio clamps the wait to one day; a virtual clock can jump straight to the next timer
                timeout = max(timeout, loop._scheduled[0]._when - loop._vtime)
            if not (loop._vtime + timeout < 1e12):
                raise VirtualClockOverflow(f"next timer at {loop._vtime + timeout!r} virtual seconds")
            loop._vtime += timeout
            # asyncio runs a timer when `when < time() + clock_resolution`; at large virtual times the float spacing
            # exceeds the default 1 ns and a due timer would never fire (busy loop): keep the resolution above one ulp
            loop._clock_resolution = max(1e-9, math.ulp(loop._vtime) * 4)
        return []

    def close(self):
        pass


class FakeSock:
    def __init__(self, family, addr):
        self.family = family
        self._addr = addr

    def getsockname(self):
        return self._addr


class SimServer:
    """What loop.create_server returns: just enough of asyncio.Server."""

    def __init__(self, loop, factory, host, port):
        self.loop, self.factory, self.host, self.port = loop, factory, host, port
        fam = socket.AF_INET6 if ":" in (host or "") else socket.AF_INET
        addr = (host, port) if fam == socket.AF_INET else (host, port, 0, 0)
        self.sockets = (FakeSock(fam, addr),)
        self.closed = False
        self.opened_at = loop.time()
        self.closed_at = None
        self.accepted = 0

    def close(self):
        if not self.closed:
            self.closed = True
            self.closed_at = self.loop.time()
            self.loop.net.listeners.pop((self.host, self.port), None)
            self.sockets = ()

    async def wait_closed(self):
        pass

    def is_serving(self):
        return not self.closed

    async def serve_forever(self):
        await self.loop.create_future()

    def get_loop(self):
        return self.loop

    async def __aenter__(self):
        return self

    async def __aexit__(self, *a):
        self.close()


class SimTransport(transports._FlowControlMixin, transports.Transport):
    def __init__(self, loop, net, side, local, remote, listener_port):
        super().__init__(extra={"sockname": local, "peername": remote}, loop=loop)
        self.net, self.side = net, side
        self.local, self.remote = local, remote
        self.listener_port = listener_port  # port of the listener this pair was made through
        self._protocol = None
        self.peer = None
        self._closing = False
        self._conn_lost = False
        self._accepted = side == "c"
        self._read_paused = False
        self.inflight = 0
        self.q = collections.deque()
        self.timer = None
        self.held = False
        self.opened_at = loop.time()
        self.accepted_at = None
        self.paused_at = None  # virtual time at which the write buffer crossed its high-water mark
        self.closed_at = None
        self.bytes_written = 0
        self.write_log = None  # optional list of (time, nbytes)
        self.eof_sent = False
        self._lost_after_flush = False
        self.id = len(net.all_transports)
        net.open_transports.add(self)
        net.all_transports.append(self)

    def __repr__(self):
        return f"<SimTransport #{self.id} {self.side} {self.local}->{self.remote} closing={self._closing}>"

    def set_protocol(self, p):
        self._protocol = p

    def get_protocol(self):
        return self._protocol

    def is_closing(self):
        return self._closing

    def get_write_buffer_size(self):
        return self.inflight

    def write(self, data):
        if self._closing or self._conn_lost or self.eof_sent:
            return
        data = bytes(data)
        if not data:
            return
        self.bytes_written += len(data)
        if self.write_log is not None:
            self.write_log.append((self._loop.time(), len(data)))
        self.net.send(self, data)
        self._maybe_pause_protocol()
        if self._protocol_paused and self.paused_at is None:
            self.paused_at = self._loop.time()

    def writelines(self, lines):
        self.write(b"".join(lines))

    def _delivered(self, n):
        self.inflight -= n
        if not self._conn_lost:
            self._maybe_resume_protocol()
            if not self._protocol_paused:
                self.paused_at = None

    def can_write_eof(self):
        return True

    def write_eof(self):
        if self.eof_sent or self._closing:
            return
        self.eof_sent = True
        self.net.send(self, None)

    def is_reading(self):
        return not self._read_paused and not self._closing

    def pause_reading(self):
        self._read_paused = True

    def resume_reading(self):
        if self._read_paused:
            self._read_paused = False
            if self.peer is not None:
                self.net.kick(self.peer)

    def _unflushed(self):
        return any(item[0] == "data" for _when, item in self.q)

    def close(self):
        if self._closing:
            return
        self._closing = True
        self.closed_at = self._loop.time()
        if not self.eof_sent:
            self.eof_sent = True
            self.net.send(self, None)
        # like asyncio's selector transport: connection_lost() is reported once the write buffer has been flushed
        # (a peer that does not read keeps the closing transport - and wait_closed() - pending)
        if self._unflushed():
            self._lost_after_flush = True
        else:
            self._loop.call_soon(self._call_connection_lost, None)

    def abort(self):
        """Hard close: unsent data is discarded and the peer gets a reset instead of an orderly EOF."""
        if self._conn_lost:
            return
        self._closing = True
        self.eof_sent = True
        if self.closed_at is None:
            self.closed_at = self._loop.time()
        for _when, (kind, chunk) in self.q:
            if kind == "data":
                self.inflight -= len(chunk)
        self.q.clear()
        if self.timer is not None:
            self.timer.cancel()
            self.timer = None
        peer = self.peer
        if peer is not None and not peer._conn_lost:
            self._loop.call_later(self.net.latency(), peer._call_connection_lost,
                                  ConnectionResetError(errno.ECONNRESET, "Connection reset by peer"))
        self._loop.call_soon(self._call_connection_lost, None)

    def _call_connection_lost(self, exc):
        if self._conn_lost:
            return
        self._conn_lost = True
        self._closing = True
        if self.closed_at is None:
            self.closed_at = self._loop.time()
        self.net.open_transports.discard(self)
        try:
            if self._protocol is not None:
                self._protocol.connection_lost(exc)
        finally:
            self._protocol = None
            # anything the peer still has queued for us will now hit a closed endpoint
            if self.peer is not None:
                self.net.kick(self.peer)


class Net:
    def __init__(self, loop, tape):
        self.loop = loop
        self.tape = tape
        self.listeners = {}
        self.all_listeners = []
        self.open_transports = set()
        self.all_transports = []
        self.next_port = 40000
        self.events = 0
        self.event_hooks = []  # callables(k, kind, transport)
        self.bind_faults = {}  # (port, attempt) -> errno
        self.bind_attempts = collections.Counter()
        self.connect_log = []
        self.record_writes = False
        self.fixed_latency = None  # overrides the tape when set
        self.accept_delay = None  # optional callable(port) -> extra one-way delay of connections to that port (a slower data path)
        self.fixed_segment = None

    # ---- choices
    def latency(self):
        if self.fixed_latency is not None:
            return self.fixed_latency
        return LATENCIES[self.tape.draw(len(LATENCIES))]

    def segment(self):
        if self.fixed_segment is not None:
            return self.fixed_segment
        return SEGMENTS[self.tape.draw(len(SEGMENTS))]

    # ---- sending
    def send(self, tr, data):
        """data None = FIN."""
        if data is None:
            self._sched(tr, ("eof", None))
            return
        seg = self.segment()
        pos = 0
        while pos < len(data):
            chunk = data[pos:pos + seg]
            pos += seg
            tr.inflight += len(chunk)
            self._sched(tr, ("data", chunk))

    def _sched(self, tr, item):
        lat = self.latency()
        when = max(self.loop.time() + lat, tr.q[-1][0] if tr.q else 0.0)
        tr.q.append((when, item))
        if len(tr.q) == 1:
            self._arm(tr)

    def _arm(self, tr):
        if tr.timer is not None or not tr.q or tr.held:
            return
        when = max(tr.q[0][0], self.loop.time())
        tr.timer = self.loop.call_at(when, self._pump, tr)

    def kick(self, tr):
        """Re-examine tr's outgoing queue (after release, resume_reading, accept)."""
        self._arm(tr)

    def hold(self, tr):
        """Gate: stop delivering what tr sends until release(tr)."""
        tr.held = True
        if tr.timer is not None:
            tr.timer.cancel()
            tr.timer = None

    def release(self, tr):
        tr.held = False
        self._arm(tr)

    def _pump(self, tr):
        tr.timer = None
        if not tr.q or tr.held:
            return
        peer = tr.peer
        peer_dead = peer is None or peer._conn_lost or peer._closing
        if not peer_dead:
            if not peer._accepted or peer._read_paused:
                return  # wait for accept()/resume_reading() to kick us
        when, (kind, chunk) = tr.q.popleft()
        if kind == "data":
            self._deliver(tr, peer, chunk)
        else:
            self._deliver_eof(tr, peer)
        if tr._lost_after_flush and not tr._conn_lost and not tr._unflushed():
            tr._lost_after_flush = False
            self.loop.call_soon(tr._call_connection_lost, None)
        if tr.q:
            self._arm(tr)

    def _tick(self, kind, tr):
        self.events += 1
        k = self.events
        for h in list(self.event_hooks):
            h(k, kind, tr)

    def _deliver(self, tr, peer, chunk):
        self._tick("data", tr)
        tr._delivered(len(chunk))
        if peer is None or peer._conn_lost or peer._closing or peer._protocol is None:
            # data hit a closed endpoint: the sender gets a reset
            if not tr._conn_lost:
                self.loop.call_later(self.latency(), tr._call_connection_lost,
                                     ConnectionResetError(errno.ECONNRESET, "Connection reset by peer"))
            return
        peer._protocol.data_received(chunk)

    def _deliver_eof(self, tr, peer):
        self._tick("eof", tr)
        if peer is None or peer._conn_lost or peer._closing or peer._protocol is None:
            return
        keep = peer._protocol.eof_received()
        if not keep:
            peer.close()

    # ---- abrupt faults usable by harnesses
    def cut_client_side(self, predicate=None):
        """The peer vanishes: every client-side transport (matching predicate) is closed."""
        for t in list(self.open_transports):
            if t.side == "c" and (predicate is None or predicate(t)):
                t.close()

    def open_server_side(self):
        return [t for t in self.open_transports if t.side == "s" and not t._closing]


class SimLoop(base_events.BaseEventLoop):
    def __init__(self, tape=None):
        super().__init__()
        self._vtime = 0.0
        self._selector = _FakeSelector(self)
        self._quiesce_waiters = []
        self.net = Net(self, tape or Tape())
        self.exec_delay_from_tape = True
        self.exec_calls = 0
        self.exec_slow = {}  # executor call index -> virtual seconds that call takes

    def time(self):
        return self._vtime

    def _process_events(self, events):
        pass

    def _write_to_self(self):
        pass

    # threads are never used: blocking functions run inline, completion is deferred a few ticks
    def run_in_executor(self, executor, func, *args):
        fut = self.create_future()
        try:
            res = func(*args)
        except BaseException as e:  # noqa
            cb, val = fut.set_exception, e
            if isinstance(e, StopIteration):
                cb, val = fut.set_exception, RuntimeError("StopIteration in executor")
        else:
            cb, val = fut.set_result, res
        n = EXEC_DELAYS[self.net.tape.draw(len(EXEC_DELAYS))] if self.exec_delay_from_tape else 0
        self.exec_calls += 1
        slow = self.exec_slow.get(self.exec_calls)
        if slow:
            # this blocking call takes `slow` virtual seconds in its worker thread
            self.call_later(slow, lambda: (not fut.done()) and cb(val))
            return fut

        def fire(left):
            if fut.done():
                return
            if left <= 0:
                cb(val)
            else:
                self.call_soon(fire, left - 1)

        self.call_soon(fire, n)
        return fut

    def quiesce(self):
        """Future resolved when nothing at all can run any more (no timers pending)."""
        f = self.create_future()
        self._quiesce_waiters.append(f)
        return f

    async def _resolved(self):
        return None

    async def create_server(self, protocol_factory, host=None, port=None, *, ssl=None,
                            start_serving=True, **kw):
        # same suspension structure as CPython 3.12 BaseEventLoop.create_server:
        # one gather() for address resolution before the bind, one sleep(0) after the
        # listener is live.
        await asyncio.gather(self._resolved())
        if not port:
            self.net.next_port += 1
            port = self.net.next_port
        self.net.bind_attempts[port] += 1
        fault = self.net.bind_faults.get((port, self.net.bind_attempts[port]))
        if fault is None:
            fault = self.net.bind_faults.get((port, "*"))
        if fault is not None:
            raise OSError(fault, "simulated bind failure")
        if (host, port) in self.net.listeners:
            raise OSError(errno.EADDRINUSE, "address already in use")
        srv = SimServer(self, protocol_factory, host, port)
        self.net.listeners[(host, port)] = srv
        self.net.all_listeners.append(srv)
        if start_serving:
            await asyncio.sleep(0)
        return srv

    async def create_connection(self, protocol_factory, host=None, port=None, *, ssl=None, **kw):
        lat = self.net.latency()
        if lat:
            await asyncio.sleep(lat)
        else:
            await asyncio.sleep(0)
        srv = self.net.listeners.get((host, port))
        self.net.connect_log.append((self.time(), host, port, srv is not None))
        if (host, port) in getattr(self.net, "blackholes", ()):
            # a filtered endpoint: the SYN is never answered (a real stack gives up after minutes; here: never)
            await self.create_future()
        if srv is None:
            raise ConnectionRefusedError(errno.ECONNREFUSED, "Connection refused")
        self.net.next_port += 1
        if ":" in host:
            caddr = (host, self.net.next_port, 0, 0)
            saddr = (host, port, 0, 0)
        else:
            caddr = (host, self.net.next_port)
            saddr = (host, port)
        ct = SimTransport(self, self.net, "c", caddr, saddr, port)
        st = SimTransport(self, self.net, "s", saddr, caddr, port)
        ct.peer, st.peer = st, ct
        if self.net.record_writes:
            ct.write_log, st.write_log = [], []

        def accept():
            self.net._tick("accept", st)
            if srv.closed:
                st._conn_lost = True
                st._closing = True
                st.closed_at = self.time()
                self.net.open_transports.discard(st)
                if not ct._conn_lost:
                    self.call_later(self.net.latency(), ct._call_connection_lost,
                                    ConnectionResetError(errno.ECONNRESET, "Connection reset by peer"))
                return
            srv.accepted += 1
            st.accepted_at = ct.accepted_at = self.time()
            sp = srv.factory()
            st.set_protocol(sp)
            st._accepted = True
            sp.connection_made(st)
            self.net.kick(ct)

        self.call_later(self.net.latency() + (self.net.accept_delay(port) if self.net.accept_delay else 0), accept)
        cp = protocol_factory()
        ct.set_protocol(cp)
        cp.connection_made(ct)
        return ct, cp


class SimPolicy(asyncio.DefaultEventLoopPolicy):
    """Used only by the calibration run (the repository's own test-suite on simnet)."""

    def new_event_loop(self):
        return SimLoop(Tape())


def run(coro_fn, tape=None, *, debug=False):
    """Run coro_fn(loop) to completion on a fresh SimLoop; always leaves no current loop."""
    loop = SimLoop(tape if isinstance(tape, Tape) else Tape(tape or ()))
    asyncio.set_event_loop(loop)
    try:
        return loop.run_until_complete(coro_fn(loop))
    finally:
        try:
            _cancel_all(loop)
        finally:
            asyncio.set_event_loop(None)
            loop.close()


def _cancel_all(loop):
    tasks = [t for t in asyncio.all_tasks(loop) if not t.done()]
    if not tasks:
        return
    for t in tasks:
        t.cancel()

    async def gather():
        await asyncio.gather(*tasks, return_exceptions=True)

    try:
        loop.run_until_complete(asyncio.wait_for(gather(), 1e9))
    except BaseException:  # noqa: harness shutdown must never mask the real outcome
        pass

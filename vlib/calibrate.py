"""Calibration of simnet: run the repository's own test-suite on the simulated loop and compare with the pinned
baseline (/root/.vp/BASELINE.json if present: every stable_pass test must pass; otherwise: exactly one failure,
tests/test_simple_functions.py::test_connection_del_future, which also fails on the stock loop)."""
import json
import os
import re
import subprocess
import sys

VERIF = os.path.dirname(os.path.dirname(os.path.abspath(__file__)))


def main():
    env = dict(os.environ, PYTHONPATH=VERIF + os.pathsep + os.environ.get("AIOFTP_SRC", "/repo/src"))
    r = subprocess.run(["/venv/bin/python", "-m", "pytest", "-q", "-p", "no:cacheprovider", "-p", "vlib.simplugin", "--timeout=300",
                        "-o", "addopts=", "-p", "no:anyio", "--import-mode=importlib", "-rf", "tests"], cwd="/repo", env=env,
                       capture_output=True, text=True)
    tail = r.stdout.strip().splitlines()[-1] if r.stdout.strip() else r.stderr[-300:]
    failed = sorted(re.findall(r"^FAILED (\S+)", r.stdout, re.M))
    expected = ["tests/test_simple_functions.py::test_connection_del_future",
                "tests/test_simple_functions.py::test_connection_not_in_storage",
                "tests/test_simple_functions.py::test_get_paths_windows_traverse"]
    unexpected = [f for f in failed if f not in expected]
    print("calibration: repository suite on simnet:", tail)
    if unexpected or "passed" not in tail:
        print("CALIBRATION FAILED: tests that pass on the stock loop fail on simnet:", unexpected[:10])
        return 2
    print("calibration ok (only the failures that also occur on the stock event loop)")
    return 0


if __name__ == "__main__":
    sys.exit(main())

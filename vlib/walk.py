"""State-aware command histories: abstract program (ints from Hypothesis) -> concrete FTP history
(via the reference model alone), and the executor that runs a concrete history against a real
server on simnet while comparing every step with the model."""

import asyncio

from vlib import harness
from vlib.ftpmodel import DIR, Model, parent, resolve
from vlib.harness import HOST, PORT, Raw, aioftp, read_all
from vlib.runner import Violation

NAMES = ["a", "b", "c", "f", "g"]
FILEOPS = ["CWD", "CDUP", "MKD", "MKD", "RMD", "DELE", "RNFR", "RNTO", "MLST"]
XFER = ["LIST", "MLSD", "STOR", "STOR", "APPE", "RETR", "RETR"]
MISC = ["PWD", "TYPE", "PBSZ", "PROT", "SYST", "ABOR", "FOO", "", "noop", "REST", "REST", "QUIT", "M\u212aD"]  # U+212A lower-cases to 'k'
REST_ARGS = ["0", "1", "3", "7", "100", "5000", "3abc", "", "-1", "١", "²", "+2", "1.5", "0x10", " 4", "07", "9" * 5000]
PAYLOADS = [b"", b"x", bytes(range(5)), b"\r\n\x00\xff\r\n" * 2 + b"z", bytes((i * 7) % 251 for i in range(40)),
            bytes(range(256))]

USERS = [
    dict(login=None, password=None, home="/", perms=[("/", True, True), ("/a", True, False), ("/a/b", False, True)]),
    dict(login="bob", password="pw", home="/", perms=[("/", True, True)]),
    dict(login="nop", password=None, home="/c", perms=[("/", True, True), ("/c/g", False, False)]),
]
USER_NAMES = ["anonymous", "bob", "nop", "zed", "bob", ""]
PASSWORDS = ["pw", "pw", "bad", "", "PW", " pw"]
INITIAL_TREE = {"/": DIR, "/c": DIR}
# server options that must not change any reply, byte or tree effect of a session (metamorphic dimension)
NEUTRAL_SERVER_KW = [
    {}, {}, {"data_ports": [5001, 5002, 5003]}, {"maximum_connections": 5}, {"socket_timeout": 900, "idle_timeout": 900},
    {"path_timeout": 900}, {"read_speed_limit": 10 ** 9, "write_speed_limit": 10 ** 9,
                            "read_speed_limit_per_connection": 10 ** 9, "write_speed_limit_per_connection": 10 ** 9},
    {"ipv4_pasv_forced_response_address": "127.0.0.1"}, {"data_ports": [5001], "maximum_connections": 1, "path_timeout": 900},
]


def gen_path(m, c, d):
    tree = sorted(m.tree)
    if c % 2 == 0 and len(tree) > 1:
        p = tree[(c // 2) % len(tree)]
        if (c // 64) % 3 == 0:
            p = p.rstrip("/") + "/" + NAMES[(c // 8) % len(NAMES)]
    else:
        n = 1 + (c // 2) % 3
        p = "/" + "/".join(NAMES[(c // (4 * (i + 1))) % len(NAMES)] for i in range(n))
    style = d % 10
    cwd = m.cwd or "/"
    if style < 3 and p.startswith(cwd.rstrip("/") + "/"):
        p = p[len(cwd.rstrip("/")) + 1:]
    elif style == 3:
        p = (p + "/../" + p.rsplit("/", 1)[-1]) if p != "/" else "/.."
    elif style == 4:
        p = "//" + p.lstrip("/") + "/"
    elif style == 5:
        p = p + "/."
    elif style == 6 and p != "/":
        p = "/../.." + p
    return p or "."


def probe_step(m, kind):
    """End-of-history probes that reveal hidden state (restart offset, pending rename, cwd, login)."""
    if kind == "pwd":
        return dict(verb="PWD", arg="", connect=None, payload=b"")
    if kind == "epsv":
        return dict(verb="EPSV", arg="", connect=None, payload=b"")
    if kind == "retr_any":
        files = sorted(k for k, val in m.tree.items() if val != DIR and len(val) > 1)
        arg = files[0] if files else "/nofile"
        return dict(verb="RETR", arg=arg, connect="before", payload=b"")
    if kind == "rnto_fresh":
        return dict(verb="RNTO", arg="/fresh-name", connect=None, payload=b"")
    raise ValueError(kind)


PROFILES = {
    # thresholds on r for a logged-in session: USER, PASS, PASV/EPSV, file ops, transfers (rest: misc)
    "default": (0.03, 0.05, 0.10, 0.38, 0.85),
    "auth": (0.18, 0.26, 0.34, 0.55, 0.85),
    "perm": (0.02, 0.03, 0.08, 0.55, 0.95),
}


def concretise_step(m, step, profile="default", user_names=None, passwords=None):
    if isinstance(step, str):
        return probe_step(m, step)
    if len(step) == 3 and step[0] == "cmd":
        return dict(verb=step[1], arg=step[2], connect=None, payload=b"")
    a, b, c, d, e = step
    t_user, t_pass, t_pasv, t_file, t_xfer = PROFILES[profile]
    user_names = user_names or USER_NAMES
    passwords = passwords or PASSWORDS
    r = a / 256.0
    files = sorted(k for k, val in m.tree.items() if val != DIR)
    if not m.logged():
        if r < 0.7:
            v = ["USER", "USER", "PASS"][b % 3] if m.auth != "pending" else ["PASS", "PASS", "USER"][b % 3]
        else:
            v = (FILEOPS + XFER + MISC + ["PASV", "EPSV"])[b % 30]
    elif not m.listener and r < 0.5:
        v = ["PASV", "EPSV"][b % 2]
    elif r < t_user:
        v = "USER"
    elif r < t_pass:
        v = "PASS"
    elif r < t_pasv:
        v = ["PASV", "EPSV", "EPSV"][b % 3]
    elif r < t_file:
        v = FILEOPS[b % len(FILEOPS)]
    elif r < t_xfer:
        v = XFER[b % len(XFER)]
        if not files and b % 3:
            v = ["STOR", "APPE"][b % 2]
    else:
        v = MISC[b % len(MISC)]
    if m.rnfr and (b // 32) % 2 == 0:
        v = "RNTO"
    if m.prev == "rest" and m.rest and (b // 64) % 4 != 0:
        v = ["RETR", "STOR", "APPE"][b % 3]
    if v == "QUIT" and (e % 4):
        v = "PWD"
    if m.logged() and (m.cwd or "/") not in m.tree and (b // 16) % 2 == 0:
        # the working directory has been renamed / removed from under the session: moves relative to it
        v = ["CDUP", "CDUP", "MLST", "LIST", "CWD"][b % 5]
    if (d // 16) % 5 == 0:
        v = v.lower()
    V = v.upper()
    arg = ""
    if V == "USER":
        arg = user_names[c % len(user_names)]
        if (c // 8) % 3:
            known = [u["login"] or "anonymous" for u in m.users] or ["anonymous"]
            arg = known[c % len(known)]
    elif V == "PASS":
        arg = passwords[c % len(passwords)]
        if m.user is not None and m.user.get("password") and c % 3 == 0:
            arg = m.user["password"]
    elif V in ("CWD", "MKD", "RMD", "DELE", "RNFR", "RNTO", "LIST", "MLSD", "MLST", "STOR", "APPE", "RETR"):
        arg = gen_path(m, c, d)
        if V in ("RETR", "DELE", "APPE") and (d // 16) % 5 < 3:
            if files:
                arg = files[c % len(files)]
        if V in ("MKD", "RMD", "DELE", "RNFR", "RNTO", "STOR", "APPE") and resolve(m.cwd or "/", arg) == "/" and e % 8:
            arg = "/" + NAMES[c % len(NAMES)]
        if V in ("LIST", "MLSD") and c % 7 == 0:
            arg = ""
        if V in ("RNFR", "RMD") and (m.cwd or "/") != "/" and (d // 2) % 6 == 0:
            # aim at the working directory itself or at its parent (which then vanishes from under the session)
            arg = m.cwd if (d // 32) % 2 or parent(m.cwd) == "/" else parent(m.cwd)
    elif V == "TYPE":
        arg = ["I", "A", "E", "i", "", "L 8"][c % 6]
    elif V == "PROT":
        arg = ["P", "C", "", "p"][c % 4]
    elif V == "REST":
        arg = REST_ARGS[c % len(REST_ARGS)]
    elif V == "EPSV":
        arg = ["", "", "", "1", "ALL"][c % 5]
    connect = None
    payload = b""
    if V in ("LIST", "MLSD", "STOR", "APPE", "RETR"):
        connect = ["before", "before", "after", "never"][e % 4]
    if V in ("STOR", "APPE"):
        payload = PAYLOADS[(e // 4) % len(PAYLOADS)]
    return dict(verb=v, arg=arg, connect=connect, payload=payload, cwd_vanished=bool(m.logged() and (m.cwd or "/") not in m.tree),
                cwd_parent_vanished=bool(m.logged() and parent(m.cwd or "/") not in m.tree))


def concretise(program, users=USERS, tree=INITIAL_TREE, ipv6=False, profile="default", user_names=None,
               passwords=None, pwd_after=(), continue_through=()):
    program = list(program)
    """Abstract program -> concrete history, using the model alone.  Also returns a per-step
    `judge` flag: False where the property texts leave the outcome open (counted as excluded)."""
    m = Model(users, ipv6=ipv6, tree=tree)
    out = []
    rnfr_unknown = False
    have_dconn = False
    i = -1
    while i + 1 < len(program):
        i += 1
        step = program[i]
        if not isinstance(step, str) and len(step) == 5 and step[0] == 255 and m.logged():
            # directed block: descend two fresh levels, pull a level away from under the session, then move relative to
            # the working directory that no longer exists (CDUP / CWD .. / listing of '')
            b_, c_, d_ = step[1], step[2], step[3]
            top = "v%d" % (b_ % 3)
            victim = [top, top + "/w"][c_ % 2]  # rename the parent of the working directory, or the directory itself
            after = [("cmd", "CDUP", ""), ("cmd", "CWD", ".."), ("cmd", "MLST", ""), ("cmd", "CDUP", "")][d_ % 4]
            block = [("cmd", "MKD", top + "/w"), ("cmd", "CWD", top + "/w"), ("cmd", "RNFR", "../../" + victim if victim == top else "../w"),
                     ("cmd", "RNTO", "/moved%d" % (b_ % 3)), after, "pwd", ("cmd", "CDUP", ""), "pwd"]
            if d_ % 8 >= 6:
                block[2:4] = [("cmd", "RMD", "../w")]  # remove the (empty) working directory itself instead
            elif d_ % 8 >= 4:
                # a sibling whose name is a string prefix of the working directory's ancestor is renamed: nothing moves
                block = [("cmd", "MKD", top + "x/w"), ("cmd", "CWD", top + "x/w"), ("cmd", "MKD", "../../" + top),
                         ("cmd", "RNFR", "../../" + top), ("cmd", "RNTO", "/moved%d" % (b_ % 3)), "pwd", ("cmd", "MLST", ""),
                         ("cmd", "MKD", "here"), ("cmd", "CDUP", ""), "pwd"]
            program[i:i + 1] = block
            step = program[i]
        elif not isinstance(step, str) and len(step) == 5 and step[0] == 254 and m.logged() and len(m.users) > 1:
            # directed block: the same (absolute) location is addressed before and after the connection logs in as another user
            b_, c_, d_ = step[1], step[2], step[3]
            target = resolve(m.cwd or "/", gen_path(m, c_, 9))
            others = [u for u in m.users if u is not m.user]
            other = others[b_ % len(others)]
            login = [("cmd", "USER", other["login"] or "anonymous")] + ([("cmd", "PASS", other["password"])] if other["password"] is not None else [])
            probe = [("cmd", "MLST", target), ("cmd", "CWD", target), "pwd", ("cmd", ["RMD", "DELE", "MKD", "RNFR"][d_ % 4], target)]
            program[i:i + 1] = probe[:3] + login + probe
            step = program[i]
        cs = concretise_step(m, step, profile, user_names, passwords)
        if cs["verb"].upper() in pwd_after:
            program.insert(i + 1, "pwd")
        V = cs["verb"].upper()
        judge = True
        why = None
        if V == "USER" and m.rnfr:
            rnfr_unknown = True
        if V == "RNFR":
            rnfr_unknown = False
        # (a pending rename never survives USER since the F17 repair: the model clears it, RNTO is judged like any other)
        connect = cs["connect"]
        if connect in ("before", "after") and not m.port_known:
            connect = cs["connect"] = "never"
        if connect == "before":
            will = m.logged() and m.listener and not m.dconn
            if will:
                m.dconn = True
            elif not m.dconn:
                connect = "never"
            cs["connect"] = connect
        exp = m.step(cs["verb"], cs["arg"], connect=connect or "never", payload=cs["payload"])
        if exp.get("agnostic"):
            judge, why = False, exp["agnostic"]
        cs["judge"] = judge
        if why:
            cs["why"] = why
        out.append(cs)
        if exp.get("ends") or (not judge and why not in continue_through):
            break  # the model no longer knows the state: stop the history here
    return out


def from_lines(lines, users=USERS, tree=INITIAL_TREE, ipv6=False):
    """Hand-written command lines -> concrete history (same record shape as concretise), judged against the model;
    stops where the model no longer knows the outcome."""
    m = Model(users, ipv6=ipv6, tree=tree)
    out = []
    for ln in lines:
        verb, _, arg = ln.partition(" ")
        cs = dict(verb=verb, arg=arg, connect=None, payload=b"", judge=True)
        exp = m.step(verb, arg, connect="never", payload=b"")
        if exp.get("agnostic"):
            cs["judge"], cs["why"] = False, exp["agnostic"]
        out.append(cs)
        if exp.get("ends") or not cs["judge"]:
            break
    return out


def classify(history):
    """Non-triviality of a history for C05: >= 2 state-dependent interactions."""
    inter = 0
    prev = None
    seen_login = False
    refused_late = False
    for i, cs in enumerate(history):
        V = cs["verb"].upper()
        if prev == "REST" and V in ("RETR", "STOR", "APPE"):
            inter += 1
        if prev == "RNFR" and V == "RNTO":
            inter += 1
        if V in ("PASV", "EPSV") and any(h["verb"].upper() in ("PASV", "EPSV") for h in history[:i]):
            inter += 1
        if V == "USER" and seen_login:
            inter += 1
        if V == "USER":
            seen_login = True
        prev = V
    return inter


async def execute(loop, history, *, backend="mem", users=USERS, tree=INITIAL_TREE, tmp=None, ipv6=False,
                  block_size=4, wait=2.0, settle=0.4, server_kw=None, snapshot_every_step=True,
                  hooks=None, records=None, port=PORT):
    """Run a concrete history against a real server, comparing every step with the model.
    Raises Violation(sig, detail).  Returns list of per-step records."""
    host = "::1" if ipv6 else HOST
    if backend == "mem":
        ausers = [aioftp.User(u["login"], u["password"], home_path=u["home"], maximum_connections=u.get("max"),
                              permissions=[aioftp.Permission(p, readable=r, writable=w) for p, r, w in u["perms"]])
                  for u in users]
    else:
        ausers = [aioftp.User(u["login"], u["password"], base_path=tmp, home_path=u["home"],
                              maximum_connections=u.get("max"),
                              permissions=[aioftp.Permission(p, readable=r, writable=w) for p, r, w in u["perms"]])
                  for u in users]
    fac = harness.BACKENDS[backend]
    ctl = None
    if hooks and hooks.get("instrument"):
        ctl = harness.Ctl()
        fac = harness.instrument(fac, ctl)
    server = aioftp.Server(ausers, path_io_factory=fac, wait_future_timeout=wait, block_size=block_size,
                           **(server_kw or {}))
    await server.start(host, port)
    port = server.server_port
    if backend == "mem":
        harness.mem_populate(server, tree)
        snap = lambda: harness.mem_tree(server)  # noqa: E731
    else:
        harness.fs_populate(tmp, tree)
        snap = lambda: harness.fs_tree(tmp)  # noqa: E731
    m = Model(users, ipv6=ipv6, tree=tree)
    c = Raw(host, port, patience=wait + 30)
    code, _ = await c.connect()
    if code != "220":
        raise Violation("walk/greeting", dict(code=code))
    data_sock = None
    recs = records if records is not None else []

    def bad(sym, rec, **kw):
        V = rec["cmd"].split(" ")[0].upper() or "EMPTY"
        raise Violation(f"{sym}/{V}/exp={'+'.join(rec['exp'] or [])}/got={'+'.join(rec.get('got') or [])}",
                        dict(step=rec, backend=backend, history=[h for h in history[:rec['i'] + 1]], **kw))

    try:
        for i, cs in enumerate(history):
            v, arg, connect, payload = cs["verb"], cs["arg"], cs["connect"], cs["payload"]
            V = v.upper()
            if connect == "before" and m.logged() and m.listener and not m.dconn and data_sock is None:
                data_sock = await c.open_data()
                await asyncio.sleep(settle)
                m.dconn = True
            calls_before = ctl.n if ctl else 0
            net_before = (len(loop.net.all_transports), len(loop.net.all_listeners)) if loop is not None else None
            was_logged = m.logged()
            exp = m.step(v, arg, connect=connect or "never", payload=payload)
            line = (v + " " + arg) if arg != "" else v
            rec = dict(i=i, cmd=line, connect=connect, exp=exp.get("codes"), judge=cs["judge"])
            recs.append(rec)
            c.send(line)
            got = []
            code, lines = await c.reply()
            got.append(code)
            rec["got"] = got
            rec["text"] = lines[-1][4:] if lines else None
            if code in ("227", "229") and lines:
                c.passive_port = harness.parse_passive(code, lines[-1])
            if not cs["judge"]:
                rec["skipped"] = cs.get("why")
                break
            if exp["codes"][0] == "150" and code == "150":
                if exp.get("kind") is not None:
                    if data_sock is None:
                        data_sock = await c.open_data()
                    r, w = data_sock
                    if exp["kind"] == "up":
                        w.write(payload)
                        w.close()
                    else:
                        data, eof = await read_all(r, wait + 30)
                        w.close()
                        rec["data_len"] = len(data)
                        if not eof:
                            bad("model/no_eof_on_data", rec)
                        if exp.get("data") is not None:
                            if data != exp["data"]:
                                bad("model/data_mismatch", rec, got_data=data, exp_data=exp["data"])
                        else:
                            try:
                                names = sorted((ln.split(" ", 1)[1] if V == "MLSD" else ln.split()[-1])
                                               for ln in data.decode().splitlines())
                            except Exception:  # noqa
                                names = ["<unparsable>"]
                            if names != sorted(exp["names"]):
                                bad("model/listing_mismatch", rec, got_names=names, exp_names=exp["names"])
                    data_sock = None
                code2, _ = await c.reply()
                got.append(code2)
            if exp.get("dropped_dconn") and data_sock is not None:
                data_sock[1].close()
                data_sock = None
            if got != exp["codes"]:
                bad("model/codes", rec)
            if exp.get("text") is not None and rec["text"] != exp["text"]:
                bad("model/reply_text", rec, exp_text=exp["text"])
            if exp.get("mlst") is not None:
                rec["mlst"] = lines
            quiet, extra = await c.silence(settle)
            if exp.get("ends"):
                if quiet:
                    bad("model/session_not_closed_after_announcement", rec)
                if extra:
                    bad("model/extra_reply", rec, extra=extra)
                break
            if not quiet:
                if extra == b"":
                    bad("model/session_closed_unannounced", rec)
                bad("model/extra_reply", rec, extra=extra)
            if hooks and hooks.get("after_step"):
                hooks["after_step"](dict(rec=rec, model=m, server=server, ctl=ctl, calls_before=calls_before,
                                         net_before=net_before, loop=loop, was_logged=was_logged, cs=cs, bad=bad))
            if snapshot_every_step:
                tr = snap()
                if tr != m.tree:
                    bad("model/tree", rec,
                        only_in_server={k: v for k, v in tr.items() if m.tree.get(k) != v},
                        only_in_model={k: v for k, v in m.tree.items() if tr.get(k) != v})
        else:
            rec = None
        return recs, m, server, c, data_sock
    finally:
        pass


async def finish(server, c, data_sock):
    if data_sock:
        data_sock[1].close()
    c.close()
    await asyncio.wait_for(server.close(), 1000)

"""Sequential reference model of one aioftp session (RFC 959/3659 semantics + the listed property texts).

State: auth in {None, "pending", "logged"}, user, cwd, rnfr, rest, listener, dconn, tree {path: DIR | bytes}.
`step()` returns what the server must do for one command sent on a quiet session:
  codes   exact reply codes, in order
  kind    None | "down" | "up"   (a data transfer takes place)
  data    bytes expected on the data connection (RETR)
  names   names expected in a listing (LIST/MLSD)
  ends    the server closes the session after the reply (announced)
  agnostic  set when the property texts leave the outcome open (the caller must not judge)
"""

DIR = "<dir>"
KNOWN = {"abor", "appe", "cdup", "cwd", "dele", "epsv", "list", "mkd", "mlsd", "mlst", "pass", "pasv", "pbsz",
         "prot", "pwd", "quit", "rest", "retr", "rmd", "rnfr", "rnto", "stor", "syst", "type", "user"}
TRANSFER = {"retr", "stor", "appe"}


def resolve(cwd, arg):
    segs = [] if arg.startswith("/") else [s for s in cwd.split("/") if s]
    for s in arg.split("/"):
        if s in ("", "."):
            continue
        if s == "..":
            if segs:
                segs.pop()
        else:
            segs.append(s)
    return "/" + "/".join(segs)


def parent(p):
    return "/" + "/".join(p.split("/")[1:-1]) if p != "/" else "/"


def nearest_permission(perms, path, default=(True, True)):
    """perms: list of (path, readable, writable).  Returns candidates (set) for the nearest ancestor."""
    segs = [s for s in path.split("/") if s]
    best, bestlen = {default}, -1
    for ppath, r, w in perms:
        ps = [s for s in ppath.split("/") if s]
        if segs[:len(ps)] == ps:
            if len(ps) > bestlen:
                best, bestlen = {(r, w)}, len(ps)
            elif len(ps) == bestlen:
                best.add((r, w))
    return best


class Model:
    def __init__(self, users, *, ipv6=False, tree=None):
        """users: list of dict(login, password, home, perms=[(path, r, w)], max=None)"""
        self.users = users
        self.ipv6 = ipv6
        self.auth = None
        self.user = None
        self.cwd = None
        self.rnfr = None
        self.rest = 0
        self.prev = None
        self.listener = False
        self.port_known = False  # a 227/229 reply has told the client where to connect
        self.dconn = False
        self.tree = dict(tree) if tree else {"/": DIR}
        self.ended = False
        self.ttype = None

    # --- helpers
    def perm(self, path, kind):
        cands = nearest_permission(self.user["perms"], path)
        vals = {c[0] if kind == "r" else c[1] for c in cands}
        if len(vals) > 1:
            return None  # duplicates of the same path disagree: the property does not say which wins
        return vals.pop()

    def exists(self, p):
        return p in self.tree

    def isdir(self, p):
        return self.tree.get(p) == DIR

    def isfile(self, p):
        return p in self.tree and self.tree[p] != DIR

    def children(self, p):
        pre = p.rstrip("/") + "/"
        return sorted(k for k in self.tree if k.startswith(pre) and "/" not in k[len(pre):] and k != p)

    def through_file(self, p):
        q = parent(p)
        while True:
            if self.isfile(q):
                return True
            if q == "/":
                return False
            q = parent(q)

    def logged(self):
        return self.auth == "logged"

    def find_user(self, name):
        user = None
        for u in self.users:
            if u["login"] is None and user is None:
                user = u
            elif u["login"] == name:
                user = u
                break
        return user

    def step(self, verb, arg, connect="before", payload=b""):
        v = verb.lower() if verb.isascii() else verb  # only ASCII verbs exist (U+212A KELVIN SIGN lower-cases to 'k')
        prev, self.prev = self.prev, v
        # the restart offset applies only to the transfer command that immediately follows REST
        saved_rest = self.rest if (v in TRANSFER and prev == "rest") else 0
        self.rest = 0
        if v not in KNOWN:
            return dict(codes=["502"])
        if v == "user":
            self.auth = None
            self.user = None
            self.rnfr = None  # a pending RNFR was resolved for the previous user: it does not survive USER (F17)
            u = self.find_user(arg)
            if u is None:
                return dict(codes=["530"])
            self.user = u
            self.cwd = u["home"]
            if u["password"] is None:  # "the correct password when that user has one": the anonymous entry included (F42)
                self.auth = "logged"
                return dict(codes=["230"])
            self.auth = "pending"
            return dict(codes=["331"])
        if v == "pass":
            if self.user is None:
                return dict(codes=["503"])
            if self.auth == "logged":
                return dict(codes=["503"])
            if self.user["password"] == arg:
                self.auth = "logged"
                return dict(codes=["230"])
            return dict(codes=["530"])
        if v == "quit":
            self.ended = True
            return dict(codes=["221"], ends=True)
        if v == "rest":
            if arg.isdecimal():
                try:
                    self.rest = int(arg)
                    return dict(codes=["350"])
                except ValueError:  # an offset too long for int(): a malformed argument like any other
                    pass
            return dict(codes=["501"])
        if v == "syst":
            return dict(codes=["215"])
        if not self.logged():
            return dict(codes=["503"])
        if v == "pwd":
            return dict(codes=["257"], text='"%s"' % self.cwd.replace('"', '""'))
        if v == "type":
            if arg in ("I", "A"):
                self.ttype = arg
                return dict(codes=["200"])
            return dict(codes=["502"])
        if v == "pbsz":
            return dict(codes=["200"])
        if v == "prot":
            return dict(codes=["200" if arg == "P" else "502"])
        if v in ("cwd", "cdup"):
            p = parent(self.cwd) if v == "cdup" else resolve(self.cwd, arg)
            if not self.exists(p) or not self.isdir(p):
                return dict(codes=["550"])
            a = self.perm(p, "r")
            if a is None:
                return dict(agnostic="duplicate permission entries disagree")
            if not a:
                return dict(codes=["550"])
            self.cwd = p
            return dict(codes=["250"])
        if v == "mkd":
            p = resolve(self.cwd, arg)
            if self.exists(p):
                return dict(codes=["550"])
            a = self.perm(p, "w")
            if a is None:
                return dict(agnostic="duplicate permission entries disagree")
            if not a:
                return dict(codes=["550"])
            if self.through_file(p):
                return dict(codes=["451"])
            q = p
            todo = []
            while not self.exists(q):
                todo.append(q)
                q = parent(q)
            for q in todo:
                self.tree[q] = DIR
            return dict(codes=["257"])
        if v == "rmd":
            p = resolve(self.cwd, arg)
            if not self.exists(p) or not self.isdir(p):
                return dict(codes=["550"])
            a = self.perm(p, "w")
            if a is None:
                return dict(agnostic="duplicate permission entries disagree")
            if not a:
                return dict(codes=["550"])
            if p == "/":
                return dict(agnostic="mutation aimed at the virtual root")
            if self.children(p):
                return dict(codes=["451"])
            del self.tree[p]
            return dict(codes=["250"])
        if v == "dele":
            p = resolve(self.cwd, arg)
            if not self.exists(p) or not self.isfile(p):
                return dict(codes=["550"])
            a = self.perm(p, "w")
            if a is None:
                return dict(agnostic="duplicate permission entries disagree")
            if not a:
                return dict(codes=["550"])
            del self.tree[p]
            return dict(codes=["250"])
        if v == "rnfr":
            p = resolve(self.cwd, arg)
            if not self.exists(p):
                return dict(codes=["550"])
            a = self.perm(p, "w")
            if a is None:
                return dict(agnostic="duplicate permission entries disagree")
            if not a:
                return dict(codes=["550"])
            if p == "/":
                return dict(agnostic="mutation aimed at the virtual root")
            self.rnfr = p
            return dict(codes=["350"])
        if v == "rnto":
            if self.rnfr is None:
                return dict(codes=["503"])
            p = resolve(self.cwd, arg)
            if self.exists(p):
                return dict(codes=["550"])
            a = self.perm(p, "w")
            if a is None:
                return dict(agnostic="duplicate permission entries disagree")
            if not a:
                return dict(codes=["550"])
            src = self.rnfr
            self.rnfr = None
            if not self.exists(src) or not self.isdir(parent(p)):
                return dict(codes=["451"])
            if p == src or p.startswith(src.rstrip("/") + "/"):
                return dict(codes=["451"])  # a directory cannot be moved into itself
            pre = src.rstrip("/") + "/"
            moved = {k: val for k, val in self.tree.items() if k == src or k.startswith(pre)}
            for k in moved:
                del self.tree[k]
            for k, val in moved.items():
                self.tree[p + k[len(src):]] = val
            return dict(codes=["250"])
        if v in ("pasv", "epsv"):
            if v == "epsv" and arg:
                return dict(codes=["522"])
            if v == "pasv" and self.ipv6:
                # aioftp opens the listener before it notices that PASV cannot describe an IPv6 address;
                # the listed property does not include listener state, so the model mirrors the code here
                self.listener = True
                return dict(codes=["503"])
            self.listener = True
            self.port_known = True
            dropped = self.dconn
            self.dconn = False
            return dict(codes=["227" if v == "pasv" else "229"], dropped_dconn=dropped)
        if v == "mlst":
            p = resolve(self.cwd, arg)
            if not self.exists(p):
                return dict(codes=["550"])
            a = self.perm(p, "r")
            if a is None:
                return dict(agnostic="duplicate permission entries disagree")
            if not a:
                return dict(codes=["550"])
            return dict(codes=["250"], mlst=p)
        if v == "abor":
            return dict(codes=["226"])
        # transfers
        if not self.listener:
            return dict(codes=["503"])
        p = resolve(self.cwd, arg)
        if v in ("list", "mlsd"):
            if not self.exists(p):
                return dict(codes=["550"])
            a = self.perm(p, "r")
            if a is None:
                return dict(agnostic="duplicate permission entries disagree")
            if not a:
                return dict(codes=["550"])
            names = [c.rsplit("/", 1)[1] for c in self.children(p)] if self.isdir(p) else []
            return self._transfer(connect, "down", names=names, done="226" if v == "list" else "200")
        if v == "retr":
            if not self.exists(p) or not self.isfile(p):
                return dict(codes=["550"])
            a = self.perm(p, "r")
            if a is None:
                return dict(agnostic="duplicate permission entries disagree")
            if not a:
                return dict(codes=["550"])
            return self._transfer(connect, "down", data=self.tree[p][saved_rest:], done="226")
        if v in ("stor", "appe"):
            a = self.perm(p, "w")
            if a is None:
                return dict(agnostic="duplicate permission entries disagree")
            if not a:
                return dict(codes=["550"])
            if p == "/":
                return dict(agnostic="mutation aimed at the virtual root")
            if not self.isdir(parent(p)):
                return dict(codes=["550"])
            r = self._transfer(connect, "up", done="226")
            if r["codes"][-1] != "226":
                return r
            if self.isdir(p):
                r["codes"][-1] = "451"
                return r
            old = self.tree.get(p)
            if saved_rest:
                if old is None:
                    # restart write (r+b) to a missing file fails on every backend; nothing is created
                    r["codes"][-1] = "451"
                    return r
                new = (old[:saved_rest].ljust(saved_rest, b"\0") + payload + old[saved_rest + len(payload):]) if payload else old
            elif v == "stor":
                new = payload
            else:
                new = (old or b"") + payload
            self.tree[p] = new
            return r

    def _transfer(self, connect, kind, done, data=None, names=None):
        have = self.dconn or connect in ("before", "after")
        if not have:
            return dict(codes=["150", "425"], kind=None)
        self.dconn = False
        return dict(codes=["150", done], kind=kind, data=data, names=names)

"""Shared harness pieces: raw wire client, instrumented backends, tree snapshots, ledger checks."""

import asyncio
import functools
import logging
import os
import shutil
import tempfile
import time as _time

from vlib.runner import bootstrap_path

bootstrap_path()
import aioftp  # noqa: E402
from aioftp import pathio as _pathio  # noqa: E402
from aioftp import server as _server  # noqa: E402
from aioftp.pathio import defend_file_methods, universal_exception  # noqa: E402

from vlib import simnet  # noqa: E402

HOST = "127.0.0.1"
PORT = 2121
DIR = "<dir>"
EPOCH0 = 1_700_000_000  # virtual wall clock origin (2023-11-14), far from any half-year boundary of the listings

logging.getLogger("asyncio").setLevel(logging.CRITICAL)
logging.getLogger("aioftp").setLevel(logging.CRITICAL)


# ------------------------------------------------------------------ deterministic wall clock
class _TimeShim:
    """Replaces the `time` module inside aioftp.pathio / aioftp.server: time() follows the virtual clock."""

    def __getattr__(self, name):
        return getattr(_time, name)

    @staticmethod
    def time():
        return wall_now()


WALL = {"epoch": EPOCH0}


def set_wall_clock(epoch):
    """Virtual wall clock origin used by the server (LIST), MemoryPathIO node times and the client's ls-date parser."""
    WALL["epoch"] = epoch


def wall_now():
    try:
        loop = asyncio.get_running_loop()
    except RuntimeError:
        return float(WALL["epoch"])
    if isinstance(loop, simnet.SimLoop):
        return WALL["epoch"] + loop.time()
    return _time.time()


class _DatetimeShim:
    """Replaces the `datetime` module inside aioftp.client: datetime.datetime.now() follows the virtual clock."""

    def __init__(self):
        import datetime as _dt

        class VDateTime(_dt.datetime):
            @classmethod
            def now(cls, tz=None):
                return _dt.datetime.fromtimestamp(wall_now(), tz)

        self._dt = _dt
        self.datetime = VDateTime

    def __getattr__(self, name):
        return getattr(self._dt, name)


def install_time_shim():
    from aioftp import client as _client
    shim = _TimeShim()
    _pathio.time = shim
    _server.time = shim
    _client.datetime = _DatetimeShim()


install_time_shim()


# ------------------------------------------------------------------ raw wire client
class Raw:
    """Independent FTP wire client: writes lines, frames replies by RFC 959 rules itself."""

    def __init__(self, host=HOST, port=PORT, patience=50.0):
        self.host, self.port, self.patience = host, port, patience
        self.r = self.w = None
        self.transcript = []  # (sent line | None, [codes])
        self.passive_port = None

    async def connect(self):
        self.r, self.w = await asyncio.open_connection(self.host, self.port)
        return await self.reply()

    async def readline(self, timeout):
        try:
            return await asyncio.wait_for(self.r.readline(), timeout)
        except asyncio.TimeoutError:
            return None
        except (ConnectionError, OSError):
            return b""

    async def reply(self, timeout=None):
        """-> (code | 'SILENCE' | 'EOF', lines)"""
        lines = []
        timeout = self.patience if timeout is None else timeout
        while True:
            line = await self.readline(timeout)
            if line is None:
                return "SILENCE", lines
            if not line:
                return "EOF", lines
            s = line.decode("utf-8", "replace").rstrip("\r\n")
            lines.append(s)
            if s[:3].isdigit() and len(s) >= 3 and (len(s) == 3 or s[3] == " ") and s[:3] == lines[0][:3]:
                return s[:3], lines
            if len(lines) == 1 and not (s[:3].isdigit() and s[3:4] == "-"):
                return "GARBAGE", lines

    def send(self, line):
        data = line if isinstance(line, bytes) else (line + "\r\n").encode("utf-8")
        self.w.write(data)

    async def cmd(self, line, timeout=None):
        self.send(line)
        code, lines = await self.reply(timeout)
        if code in ("227", "229") and lines:
            self.passive_port = parse_passive(code, lines[-1])
        return code, lines

    async def silence(self, dt=0.6):
        """True if nothing arrives on the control channel for dt virtual seconds."""
        line = await self.readline(dt)
        return line is None, line

    async def open_data(self, port=None):
        return await asyncio.open_connection(self.host, port or self.passive_port)

    def close(self):
        if self.w is not None:
            self.w.close()


def parse_passive(code, s):
    if code == "229":
        return int(s.split("|||")[1].split("|")[0])
    nums = s[s.index("(") + 1:s.index(")")].split(",")
    return (int(nums[4]) << 8) | int(nums[5])


async def read_all(reader, timeout=50.0):
    """Read a data connection until EOF.  -> (bytes, eof_seen)"""
    buf = bytearray()
    try:
        while True:
            chunk = await asyncio.wait_for(reader.read(65536), timeout)
            if not chunk:
                return bytes(buf), True
            buf += chunk
    except asyncio.TimeoutError:
        return bytes(buf), False
    except (ConnectionError, OSError):
        return bytes(buf), True


# ------------------------------------------------------------------ instrumented backends
class Ctl:
    """Control block of one instrumented backend class (one per case)."""

    def __init__(self):
        self.n = 0
        self.log = []  # (name, str(path) | None)
        self.fail_at = set()
        self.fired = []
        self.delays = {}  # method name -> virtual seconds (or callable(n) -> seconds)
        self.yields = {}  # method name -> number of bare loop iterations the call gives up (no virtual time passes)
        self.fail_names = set()  # every call of these methods fails (switched on and off by the scenario)
        self.open_handles = 0
        self.record = True
        self.exc_factory = lambda name: OSError(5, "injected fault @" + name)
        self.scope = None  # optional predicate(connection): count / fail only calls of matching sessions
        self.on_fire = None

    async def hit(self, name, path=None, conn=None):
        if self.scope is not None and not self.scope(conn):
            return
        self.n += 1
        if self.record:
            self.log.append((name, None if path is None else str(path)))
        d = self.delays.get(name)
        if d:
            await asyncio.sleep(d(self.n) if callable(d) else d)
        for _ in range(self.yields.get(name, 0)):
            await asyncio.sleep(0)
        if self.n in self.fail_at or name in self.fail_names:
            self.fired.append((self.n, name))
            if self.on_fire:
                self.on_fire(self.n, name)
            raise self.exc_factory(name)


def _unwrap(f):
    while hasattr(f, "__wrapped__"):
        f = f.__wrapped__
    return f


def instrument(base, ctl=None):
    """Subclass of a shipped backend whose every operation goes through ctl.hit() (count, log,
    optional delay, optional injected OSError inside universal_exception)."""
    ctl = ctl or Ctl()

    class Instrumented(base):
        pass

    Instrumented.ctl = ctl
    Instrumented.__name__ = "Instrumented" + base.__name__

    def path_method(name):
        orig = getattr(base, name)

        @universal_exception
        async def m(self, path, *a, **k):
            await ctl.hit(name, path, self.connection)
            r = await orig(self, path, *a, **k)
            if name == "_open":
                ctl.open_handles += 1
            return r

        m.__name__ = name
        return m

    for name in ["exists", "is_dir", "is_file", "mkdir", "rmdir", "unlink", "stat", "_open"]:
        setattr(Instrumented, name, path_method(name))

    orig_rename = base.rename

    @universal_exception
    async def rename(self, source, destination):
        await ctl.hit("rename", f"{source} -> {destination}", self.connection)
        return await orig_rename(self, source, destination)

    Instrumented.rename = rename

    def file_method(name):
        orig = getattr(base, name)

        @universal_exception
        @defend_file_methods
        async def m(self, file, *a, **k):
            if name == "close":
                ctl.open_handles -= 1  # the handle is gone from the session's point of view either way
            await ctl.hit(name, None, self.connection)
            return await orig(self, file, *a, **k)

        m.__name__ = name
        return m

    for name in ["seek", "write", "read", "close"]:
        setattr(Instrumented, name, file_method(name))

    orig_list = base.list

    def lister(self, path):
        inner = orig_list(self, path)
        conn = self.connection

        class Lister(aioftp.AbstractAsyncLister):
            @universal_exception
            async def __anext__(s):
                await ctl.hit("list.next", path, conn)
                return await inner.__anext__()

        return Lister(timeout=self.timeout)

    Instrumented.list = lister
    return Instrumented


# ------------------------------------------------------------------ trees
def mem_tree(server):
    out = {}

    def walk(nodes, prefix):
        for n in nodes:
            p = "/" if n.name == "/" else prefix.rstrip("/") + "/" + n.name
            if n.type == "dir":
                out[p] = DIR
                walk(n.content, p)
            else:
                out[p] = n.content.getvalue()

    st = server.path_io_factory.state
    if st is None:
        return {"/": DIR}
    walk(st, "")
    return out


def fs_tree(base):
    out = {"/": DIR}
    base = str(base)
    for root, dirs, files in os.walk(base):
        rel = "/" if root == base else "/" + os.path.relpath(root, base).replace(os.sep, "/")
        for d in dirs:
            out[rel.rstrip("/") + "/" + d] = DIR
        for f in files:
            with open(os.path.join(root, f), "rb") as fh:
                out[rel.rstrip("/") + "/" + f] = fh.read()
    return out


def mem_populate(server, tree):
    """Create a tree directly in a server's MemoryPathIO state (bypassing the protocol)."""
    import io
    import pathlib
    pio = server.path_io_factory(timeout=None, connection=None)
    for p in sorted(tree):
        if p == "/":
            continue
        v = tree[p]
        path = pathlib.PurePosixPath(p)
        parent = pio.get_node(path.parent)
        if v == DIR:
            parent.content.append(_pathio.Node("dir", path.name, content=[]))
        else:
            parent.content.append(_pathio.Node("file", path.name, content=io.BytesIO(v)))
            # BytesIO(initial) starts at position 0; writes in "ab" mode seek to the end themselves


def fs_populate(base, tree):
    for p in sorted(tree):
        if p == "/":
            continue
        v = tree[p]
        full = os.path.join(str(base), p.lstrip("/"))
        if v == DIR:
            os.makedirs(full, exist_ok=True)
        else:
            os.makedirs(os.path.dirname(full), exist_ok=True)
            with open(full, "wb") as fh:
                fh.write(v)


class TempDirs:
    """Scratch directories of one case; removed on exit."""

    def __init__(self):
        self.dirs = []

    def new(self):
        d = tempfile.mkdtemp(prefix="aioftp_verif_")
        self.dirs.append(d)
        return d

    def cleanup(self):
        for d in self.dirs:
            shutil.rmtree(d, ignore_errors=True)
        self.dirs = []

    def __enter__(self):
        return self

    def __exit__(self, *a):
        self.cleanup()


BACKENDS = {"mem": aioftp.MemoryPathIO, "fs": aioftp.PathIO, "afs": aioftp.AsyncPathIO}


# ------------------------------------------------------------------ ledger
def ledger(loop, server, main_port=PORT, *, expect_main_listener=True):
    """What the server still holds: -> dict of leaks (empty dict = clean)."""
    net = loop.net
    leaks = {}
    # a transport counts as released once the server has called close() on it (flushing the rest is the OS's business)
    open_s = [t for t in net.all_transports if t.side == "s" and not t._closing and not t._conn_lost]
    if open_s:
        leaks["server_transports_open"] = [(t.listener_port, t.local[1], t.remote[1]) for t in open_s]
    listeners = sorted(p for (_h, p) in net.listeners)
    extra = [p for p in listeners if p != main_port]
    if extra:
        leaks["listeners_open"] = extra
    if not expect_main_listener and main_port in listeners:
        leaks["main_listener_open"] = True
    if getattr(server, "connections", None):
        leaks["connection_table"] = len(server.connections)
    return leaks


def harness_task_names(loop):
    return [t for t in asyncio.all_tasks(loop) if not t.done()]


def run_sim(coro_fn, tape=None):
    return simnet.run(coro_fn, tape)

"""pytest plugin (-p vlib.simplugin): run the repository's own test-suite on simnet (calibration)."""
import asyncio

from vlib import simnet

asyncio.set_event_loop_policy(simnet.SimPolicy())
